// World: qhashtbl (C05; container for C11-C15)
#include "wutil.h"
#ifndef QSIM_STRUCT
#define QSIM_STRUCT 1      // 0: this adapter is built without reading any private struct field (API-level oracles only)
#endif
#include <algorithm>
#include <inttypes.h>
extern "C" {
#include "containers/qhashtbl.h"
#include "utilities/qhash.h"
}

enum { H_PUT, H_GET, H_REMOVE, H_CLEAR, H_SIZE, H_WALK, H_LOCKEDWALK, H_DEBUG };
static const std::vector<std::string> H_NAMES = {"put", "get", "remove", "clear", "size", "walk", "lockedwalk", "debug"};
enum { NULLKEY = 0x100, NULLDATA = 0x200, SELFREF = 0x400 };   // SELFREF: the value passed to put points into the table's own stored value of that key

struct HashWorld;
struct HashModel : Model {
    const HashWorld *w; std::map<Bytes, Bytes> m;
    explicit HashModel(const HashWorld *w_) : w(w_) {}
    Model *clone() const override { return new HashModel(*this); }
    Result apply(const Op &op) override;
    std::string dump() const override {
        Bytes o = "n=" + num((long long)m.size()) + ";";
        for (auto &kv : m) { enc(o, kv.first); enc(o, kv.second); }
        return o;
    }
};

struct HashWorld : World {
    std::vector<Bytes> keys;   // C strings without the terminator
    int U = 0; long range = 0; bool threadsafe = false, mt = false;
    qhashtbl_t *t = nullptr;

    const char *name() const override { return "hashtbl"; }
    const std::vector<std::string> &opnames() const override { return H_NAMES; }

    void gen_cfg(Rng &r, const std::string &prop, const std::string &mode, Cfg &c) override {
        c.world = "hashtbl";
        bool mtm = mode == "threads";
        c.set("U", mtm ? r.pick(std::vector<int>{2, 3, 4}) : r.pick(std::vector<int>{2, 3, 4, 6, 8, 12, 20, 40}));
        c.set("range", r.pick(std::vector<int>{1, 1, 2, 2, 3, 3, 5, 7, 16, 0}));
        c.set("useed", (long)r.below(1000000));
        c.set("ts", (mtm || mode == "lockbal") ? 1 : (r.chance(1, 5) ? 1 : 0));
        c.set("mt", mtm ? 1 : 0);
        c.set("nops", r.range(5, r.chance(1, 4) ? 300 : 60));
        c.set("fullcoll", r.chance(1, 4) ? 1 : 0);      // universe contains two keys whose full 32-bit hashes are equal
        (void)prop;
    }
    Op gen_op(Rng &r, const std::string &prop, const std::string &mode, GenState &) override {
        Op op;
        int Uc = (int)cfg.get("U");
        if (mode == "threads") op.k = wpick(r, {{35, H_PUT}, {25, H_GET}, {25, H_REMOVE}, {5, H_CLEAR}, {10, H_LOCKEDWALK}});
        else op.k = wpick(r, {{38, H_PUT}, {22, H_GET}, {22, H_REMOVE}, {2, H_CLEAR}, {5, H_SIZE}, {9, H_WALK}, {prop == "C14" ? 3 : 0, H_DEBUG}, {prop == "C14" ? 6 : 0, H_LOCKEDWALK}});
        op.a = (int)r.below((uint32_t)Uc);
        switch (op.k) {
        case H_PUT: {
            int api = (int)r.below(4);
            int klass = (api == 1 || api == 2 || mode == "threads") ? (r.chance(1, 2) ? 1 : 5) : (int)r.below(6);
            op.b = (int)r.below(1 << 20); op.c = mode == "threads" ? r.range(1, 12) : gen_vlen(r, 200); op.d = api | (klass << 2);
            if (api == 3) op.b = (int)r.next();      // putint: any 32-bit value, sign included
            if (api == 2 && mode != "threads" && r.chance(1, 4)) op.c = gen_fmt_len(r);
            break;
        }
        case H_GET: op.d = (mode == "threads" ? 1 : (int)r.below(2)) | ((int)r.below(3) << 1); break;
        case H_WALK: case H_LOCKEDWALK: op.d = (int)r.below(2); break;
        default: break;
        }
        if (mode != "threads" && op.k == H_PUT && r.chance(1, 25)) { op.d = SELFREF; return op; }
        if (prop == "C14" && r.chance(1, 8) && (op.k == H_PUT || op.k == H_GET || op.k == H_REMOVE)) op.d |= r.chance(1, 2) ? NULLKEY : (op.k == H_PUT ? NULLDATA : NULLKEY);
        return op;
    }
    bool result_is_ambiguous(const Op &op) const override { return op.k == H_CLEAR; }
    bool is_mutation(const Op &op) const override { return op.k == H_PUT || op.k == H_REMOVE || op.k == H_CLEAR; }

    void init(const Cfg &c) override {
        cfg = c; U = (int)c.get("U"); range = c.get("range"); threadsafe = c.get("ts") != 0; mt = c.get("mt") != 0;
        Rng r((uint64_t)c.get("useed") * 104729 + 5);
        std::set<Bytes> seen; keys.clear();
        if (c.get("fullcoll") && U >= 2 && !collision_pairs().empty()) {
            auto &pr = collision_pairs()[r.below((uint32_t)collision_pairs().size())];
            keys.push_back(pr.first); keys.push_back(pr.second); seen.insert(pr.first); seen.insert(pr.second);
            if (r.chance(1, 2)) std::swap(keys[0], keys[1]);
        }
        while ((int)keys.size() < U) {
            Bytes k; int len = r.range(1, 6);
            for (int i = 0; i < len; i++) k += "abcXYZ019_-\x80\xfe"[r.below(13)];
            if (seen.insert(k).second) keys.push_back(k);
        }
    }
    const Bytes &key(int a) const { int n = (int)keys.size(); return keys[((a % n) + n) % n]; }
    Bytes value(const Op &op) const {
        int api = op.d & 3;
        if (api == 3) { char b[32]; snprintf(b, sizeof b, "%" PRId64, int_value(op.b, op.c)); return Bytes(b) + Bytes(1, '\0'); }
        return gen_value(op.b, op.c, (op.d >> 2) & 7);
    }
    Model *new_model() override { return new HashModel(this); }

    bool sut_create(Ctx &x) override {
        { InSut s; t = qhashtbl((size_t)range, threadsafe ? QHASHTBL_THREADSAFE : 0); }
        if (t) x.st.add(range == 1 ? "cfg.range1" : range <= 3 ? "cfg.range2_3" : "cfg.range_big");
        if (t && cfg.get("fullcoll")) x.st.add("probe.universe_has_full_hash_collision");
        return t != nullptr;
    }
    void sut_destroy(Ctx &) override { if (t) { InSut s; t->free(t); } t = nullptr; }
    void sut_abandon() override { t = nullptr; }
#if QSIM_STRUCT
    void *sut_mutex() override { return t ? t->qmutex : nullptr; }
    bool sut_sees_mutex() override { return true; }
#endif
    bool sut_user_lock() override { InSutLock s; t->lock(t); return true; }
    void sut_force_unlock() override { InSutLock s; t->unlock(t); }
    void sut_probe(Ctx &) override { InSut s; t->get(t, "probe-key", nullptr, false); }

    // position of a key inside its collision chain (reads public struct fields): 0 head, 1 middle, 2 tail, 3 only
    int chain_pos(const Bytes &k) {
#if !QSIM_STRUCT
        (void)k; return -1;
#else
        if (mt) return -1;
        uint32_t h = qhashmurmur3_32(k.c_str(), k.size());
        qhashtbl_obj_t *o = t->slots[h % t->range], *prev = nullptr;
        for (; o; prev = o, o = o->next) if (!strcmp(o->name, k.c_str())) { if (!prev && !o->next) return 3; if (!prev) return 0; return o->next ? 1 : 2; }
        return -1;
#endif
    }

    Result sut_apply(const Op &op, Ctx &x) override {
        switch (op.k) {
        case H_PUT: {
            Bytes k = key(op.a), v = value(op); int api = op.d & 3; bool ok;
            Bytes kz = k + Bytes(1, '\0');
            if (op.d & SELFREF) {
                CallerBuf kb2(kz); size_t n = 0; void *p;
                { InSut s; p = t->get(t, (const char *)kb2.p, &n, false); }
                if (!p || n == 0) return R_ok("skip");
                size_t off = (size_t)op.c % n;
                { InSut s; ok = t->put(t, (const char *)kb2.p, (char *)p + off, n - off); }
                x.st.add("probe.put_from_own_value");
                return ok ? R_ok() : R_fail();
            }
            CallerBuf kb(kz), vb(v);
            const char *kp = (op.d & NULLKEY) ? nullptr : (const char *)kb.p;
            const void *vp = (op.d & NULLDATA) ? nullptr : vb.p;
            InSut s;
            if (api == 0) ok = t->put(t, kp, vp, vb.n);
            else if (api == 1) ok = t->putstr(t, kp, (const char *)vp);
            else if (api == 2) ok = vp ? t->putstrf(t, kp, "%s", (const char *)vp) : t->putstr(t, kp, nullptr);
            else ok = t->putint(t, kp, int_value(op.b, op.c));
            return ok ? R_ok() : R_fail();
        }
        case H_GET: {
            Bytes k = key(op.a); bool newmem = op.d & 1; int api = (op.d >> 1) & 3;
            Bytes kz = k + Bytes(1, '\0');
            CallerBuf kb(kz);
            const char *kp = (op.d & NULLKEY) ? nullptr : (const char *)kb.p;
            size_t sz = (size_t)-1; void *p;
            // what is stored (needed to use the string/integer accessors only on string values)
            size_t ssz = 0; void *sp;
            bool is_str;
            if (mt) { sp = (void *)1; is_str = true; }   // concurrent mode stores strings only; never peek through a non-copying get
            else {
                { InSut s; sp = kp ? t->get(t, kp, &ssz, false) : nullptr; }
                is_str = sp && ssz > 0 && memchr(sp, 0, ssz) == (char *)sp + ssz - 1;
            }
            if (api == 2 && kp && (is_str || !sp)) {
                int64_t n; { InSut s; n = t->getint(t, kp); }
                if (n == 0 && sim_fault_fired() > 0) return R_fail("int:0");    // 0 is getint's documented failure value
                return R_ok("int:" + num((long long)n));
            }
            if (api == 1 && is_str) {
                { InSut s; p = t->getstr(t, kp, newmem); }
                sz = p ? strlen((char *)p) + 1 : 0;
            } else { InSut s; p = t->get(t, kp, &sz, newmem); }
            if (!p) return R_fail();
            Bytes got((const char *)p, sz);
            if (newmem) x.hold(p, got, "hashtbl.get(newmem)");
            return R_ok(encs(got));
        }
        case H_REMOVE: {
            Bytes k = key(op.a); Bytes kz = k + Bytes(1, '\0');
            int pos = (op.d & NULLKEY) ? -1 : chain_pos(k);
            static const char *pn[] = {"probe.remove_chain_head", "probe.remove_chain_middle", "probe.remove_chain_tail", "probe.remove_chain_only"};
            if (pos >= 0) x.st.add(pn[pos]);
            CallerBuf kb(kz); bool ok;
            { InSut s; ok = t->remove(t, (op.d & NULLKEY) ? nullptr : (const char *)kb.p); }
            return ok ? R_ok() : R_fail();
        }
        case H_CLEAR: { InSut s; t->clear(t); return R_ok(); }
        case H_SIZE: { size_t n; { InSut s; n = t->size(t); } return R_ok(num((long long)n)); }
        case H_WALK: case H_LOCKEDWALK: {
            bool newmem = op.d & 1;
            if (op.k == H_LOCKEDWALK) { InSutLock s; t->lock(t); }
            qhashtbl_obj_t o; memset(&o, 0, sizeof o);
            std::vector<Bytes> seen; bool failed = false; int fired_seen = sim_fault_fired(), retries = 0;
            size_t guard = t->size(t) * 2 + 8;
            for (;;) {
                void *n0 = o.name, *d0 = o.data;
                bool more; { InSut s; more = t->getnext(t, &o, newmem); }
                if (!more && sim_fault_fired() > fired_seen) { check_cursor_ptr(x, "name", n0, o.name); check_cursor_ptr(x, "data", d0, o.data); }
                if (!more && newmem && sim_fault_fired() > fired_seen && retries < 1) { fired_seen = sim_fault_fired(); retries++; failed = true; x.st.add("probe.walk_step_retried_after_enomem"); continue; }   // a step reported failure: so does the walk (the retry only probes that the cursor is still safe to use)
                if (!more) { if (sim_fault_fired() > fired_seen) failed = true; break; }
                Bytes e; Bytes k(o.name), v((const char *)o.data, o.size);
                enc(e, k); enc(e, v);
                if (newmem) { x.hold(o.name, k + Bytes(1, '\0'), "hashtbl.getnext(newmem).name"); x.hold(o.data, v, "hashtbl.getnext(newmem).data"); }
                seen.push_back(e);
                if (seen.size() > guard) { if (op.k == H_LOCKEDWALK) { InSutLock s; t->unlock(t); } x.fail("walk-mismatch", "result", "walk does not end (more elements than keys)"); }
            }
            if (op.k == H_LOCKEDWALK) { InSutLock s; t->unlock(t); }
            std::sort(seen.begin(), seen.end());
            Bytes out; for (auto &e : seen) out += e;
            return failed ? R_fail(out) : R_ok(out + "$");
        }
        case H_DEBUG: {
            FILE *f = fopen("/dev/null", "w"); bool ok;
            { InSut s; ok = t->debug(t, f); }
            fclose(f);
            return ok ? R_ok() : R_fail();
        }
        }
        return R_ok();
    }

    std::string sut_dump(Ctx &) override {
        Bytes o = "n=" + num((long long)t->size(t)) + ";";
        std::vector<Bytes> ks = keys; std::sort(ks.begin(), ks.end());
        for (auto &k : ks) {
            size_t sz = 0; void *p;
            { InSut s; p = t->get(t, k.c_str(), &sz, false); }
            if (p) { enc(o, k); enc(o, Bytes((const char *)p, sz)); }
        }
        return o;
    }

    void sut_struct(Ctx &x) override {
#if QSIM_STRUCT
        if (!t) return;
        size_t cnt = 0; std::set<Bytes> names;
        for (size_t i = 0; i < t->range; i++) {
            size_t len = 0;
            for (qhashtbl_obj_t *o = t->slots[i]; o; o = o->next) {
                if (++len > t->num + 4) { x.fail("structure", "struct", "collision chain longer than the key count (cycle)"); }
                // which hash function places a key is the implementation's business: a misplaced key shows up as a failed lookup
                if (!names.insert(o->name).second) x.fail("structure", "struct", "key '" + Bytes(o->name) + "' is stored twice");
                cnt++;
            }
        }
        if (cnt != t->num) x.fail("structure", "struct", "chains hold " + num((long long)cnt) + " keys, size() says " + num((long long)t->num));
        x.st.add("struct.checks");
#else
        (void)x;
#endif
    }

    std::string render(const Op &op) const override {
        char b[200];
        switch (op.k) {
        case H_PUT: snprintf(b, sizeof b, "put key#%d=%s value(seed %d,len %d,class %d) api%d%s%s", op.a, hexs(key(op.a), 12).c_str(), op.b, op.c, (op.d >> 2) & 7, op.d & 3, (op.d & NULLKEY) ? " NULL-key" : "", (op.d & NULLDATA) ? " NULL-data" : ""); break;
        case H_GET: snprintf(b, sizeof b, "get key#%d=%s newmem=%d api%d%s", op.a, hexs(key(op.a), 12).c_str(), op.d & 1, (op.d >> 1) & 3, (op.d & NULLKEY) ? " NULL-key" : ""); break;
        case H_REMOVE: snprintf(b, sizeof b, "remove key#%d=%s%s", op.a, hexs(key(op.a), 12).c_str(), (op.d & NULLKEY) ? " NULL-key" : ""); break;
        case H_WALK: case H_LOCKEDWALK: snprintf(b, sizeof b, "%s newmem=%d", H_NAMES[op.k].c_str(), op.d & 1); break;
        default: return World::render(op);
        }
        return b;
    }
};

Result HashModel::apply(const Op &op) {
    switch (op.k) {
    case H_PUT: {
        if (op.d & SELFREF) { auto it = m.find(w->key(op.a)); if (it == m.end() || it->second.empty()) return R_ok("skip"); it->second = it->second.substr((size_t)op.c % it->second.size()); return R_ok(); }
        if ((op.d & NULLKEY) || ((op.d & NULLDATA) && (op.d & 3) != 3)) return R_fail();     // putint takes no data pointer
        Bytes v = w->value(op);
        if ((op.d & 3) == 1 || (op.d & 3) == 2) v = Bytes(v.c_str()) + Bytes(1, '\0');
        m[w->key(op.a)] = v; return R_ok();
    }
    case H_GET: {
        if (op.d & NULLKEY) return R_fail();
        auto it = m.find(w->key(op.a));
        int api = (op.d >> 1) & 3;
        bool is_str = it != m.end() && !it->second.empty() && it->second.find('\0') == it->second.size() - 1;
        if (api == 2 && (is_str || it == m.end())) return R_ok("int:" + num(it == m.end() ? 0 : atoll(it->second.c_str())));
        if (it == m.end()) return R_fail();
        return R_ok(encs(it->second));
    }
    case H_REMOVE: if (op.d & NULLKEY) return R_fail(); return m.erase(w->key(op.a)) ? R_ok() : R_fail();
    case H_CLEAR: m.clear(); return R_ok();
    case H_SIZE: return R_ok(num((long long)m.size()));
    case H_WALK: case H_LOCKEDWALK: {
        std::vector<Bytes> seen;
        for (auto &kv : m) { Bytes e; enc(e, kv.first); enc(e, kv.second); seen.push_back(e); }
        std::sort(seen.begin(), seen.end());
        Bytes out; for (auto &e : seen) out += e;
        return R_ok(out + "$");
    }
    case H_DEBUG: return R_ok();
    }
    return R_ok();
}

World *make_hashtbl() { return new HashWorld(); }
