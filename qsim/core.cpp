#include "core.h"
#include "sim.h"
#include <algorithm>

int g_caller_misalign = 0;
uint64_t fnv1a(const void *p, size_t n, uint64_t h) {
    const unsigned char *b = (const unsigned char *)p;
    for (size_t i = 0; i < n; i++) { h ^= b[i]; h *= 1099511628211ULL; }
    return h;
}
uint64_t mix_seed(uint64_t base, const std::string &prop, const std::string &tier, uint64_t i) {
    uint64_t x = base ^ fnv1a(prop) ^ (fnv1a(tier) << 1);
    x += i * 0x9e3779b97f4a7c15ULL;
    uint64_t y = x;
    Rng::splitmix(y);
    return Rng::splitmix(y);
}
std::string hexs(const Bytes &b, size_t maxbytes) {
    std::string o;
    bool printable = true;
    for (unsigned char c : b) if (c < 0x20 || c > 0x7e || c == '"' || c == '\\') { printable = false; break; }
    if (printable) { o = "'" + b.substr(0, maxbytes) + "'"; if (b.size() > maxbytes) o += "..."; return o; }
    static const char *hx = "0123456789abcdef";
    o = "x";
    for (size_t i = 0; i < b.size() && i < maxbytes; i++) { o += hx[(unsigned char)b[i] >> 4]; o += hx[b[i] & 15]; }
    if (b.size() > maxbytes) o += "...";
    o += "(" + std::to_string(b.size()) + ")";
    return o;
}
std::string hex64(uint64_t v) { char b[24]; snprintf(b, sizeof b, "%016llx", (unsigned long long)v); return b; }

// ---------------------------------------------------------------- JSON
static void jesc(const std::string &s, std::string &o) {
    o += '"';
    for (unsigned char c : s) {
        if (c == '"' || c == '\\') { o += '\\'; o += (char)c; }
        else if (c == '\n') o += "\\n";
        else if (c == '\t') o += "\\t";
        else if (c < 0x20 || c >= 0x7f) { char b[8]; snprintf(b, sizeof b, "\\u%04x", c); o += b; }
        else o += (char)c;
    }
    o += '"';
}
std::string J::dump(int indent, int lvl) const {
    std::string o;
    auto nl = [&](int l) { if (indent >= 0) { o += '\n'; o.append((size_t)(indent * l), ' '); } };
    switch (t) {
    case NUL: o = "null"; break;
    case NUM: o = std::to_string(n); break;
    case BOOL: o = n ? "true" : "false"; break;
    case STR: jesc(s, o); break;
    case ARR: {
        bool flat = true;
        for (auto &e : a) if (e.t == ARR || e.t == OBJ) flat = false;
        o = "[";
        for (size_t i = 0; i < a.size(); i++) { if (i) o += ","; if (!flat) nl(lvl + 1); o += a[i].dump(flat ? -1 : indent, lvl + 1); }
        if (!flat && !a.empty()) nl(lvl);
        o += "]";
        break;
    }
    case OBJ: {
        bool flat = indent < 0;
        if (!flat) { flat = true; for (auto &kv : this->o) if (kv.second.t == ARR || kv.second.t == OBJ) flat = false; }
        o = "{";
        for (size_t i = 0; i < this->o.size(); i++) {
            if (i) o += ",";
            if (!flat) nl(lvl + 1);
            jesc(this->o[i].first, o); o += ":";
            o += this->o[i].second.dump(flat ? -1 : indent, lvl + 1);
        }
        if (!flat && !this->o.empty()) nl(lvl);
        o += "}";
        break;
    }
    }
    return o;
}
namespace {
struct JP {
    const std::string &t; size_t i = 0; std::string err;
    explicit JP(const std::string &s) : t(s) {}
    void ws() { while (i < t.size() && (t[i] == ' ' || t[i] == '\n' || t[i] == '\t' || t[i] == '\r')) i++; }
    bool val(J &o) {
        ws();
        if (i >= t.size()) { err = "eof"; return false; }
        char c = t[i];
        if (c == '{') {
            o = J::obj(); i++; ws();
            if (i < t.size() && t[i] == '}') { i++; return true; }
            for (;;) {
                J k; ws(); if (!str(k)) return false; ws();
                if (i >= t.size() || t[i] != ':') { err = "colon"; return false; }
                i++;
                J v; if (!val(v)) return false;
                o.o.push_back({k.s, v}); ws();
                if (i < t.size() && t[i] == ',') { i++; continue; }
                if (i < t.size() && t[i] == '}') { i++; return true; }
                err = "obj"; return false;
            }
        }
        if (c == '[') {
            o = J::arr(); i++; ws();
            if (i < t.size() && t[i] == ']') { i++; return true; }
            for (;;) {
                J v; if (!val(v)) return false;
                o.a.push_back(v); ws();
                if (i < t.size() && t[i] == ',') { i++; continue; }
                if (i < t.size() && t[i] == ']') { i++; return true; }
                err = "arr"; return false;
            }
        }
        if (c == '"') return str(o);
        if (!t.compare(i, 4, "true")) { o = J::boolean(true); i += 4; return true; }
        if (!t.compare(i, 5, "false")) { o = J::boolean(false); i += 5; return true; }
        if (!t.compare(i, 4, "null")) { o = J(); i += 4; return true; }
        size_t j = i; if (t[j] == '-') j++;
        while (j < t.size() && (isdigit((unsigned char)t[j]))) j++;
        if (j == i) { err = "value"; return false; }
        // tolerate fractions by truncation
        size_t e = j; while (e < t.size() && (isdigit((unsigned char)t[e]) || t[e] == '.' || t[e] == 'e' || t[e] == 'E' || t[e] == '+' || t[e] == '-')) e++;
        o = J::num(atoll(t.substr(i, j - i).c_str())); i = e; return true;
    }
    bool str(J &o) {
        if (i >= t.size() || t[i] != '"') { err = "string"; return false; }
        i++; std::string s;
        while (i < t.size() && t[i] != '"') {
            if (t[i] == '\\' && i + 1 < t.size()) {
                char c = t[i + 1]; i += 2;
                if (c == 'n') s += '\n'; else if (c == 't') s += '\t'; else if (c == 'r') s += '\r';
                else if (c == 'u' && i + 4 <= t.size()) { s += (char)strtol(t.substr(i, 4).c_str(), nullptr, 16); i += 4; }
                else s += c;
            } else s += t[i++];
        }
        if (i >= t.size()) { err = "unterminated"; return false; }
        i++; o = J::str(s); return true;
    }
};
}
bool J::parse(const std::string &text, J &out, std::string *err) {
    JP p(text);
    bool ok = p.val(out);
    if (!ok && err) *err = p.err + " at " + std::to_string(p.i);
    return ok;
}

// ---------------------------------------------------------------- plan <-> JSON
static J op_to_json(const Op &op, World &w) {
    J j = J::obj();
    j.set("op", J::str(w.opnames()[op.k]));
    if (op.a) j.set("a", J::num(op.a));
    if (op.b) j.set("b", J::num(op.b));
    if (op.c) j.set("c", J::num(op.c));
    if (op.d) j.set("d", J::num(op.d));
    if (op.h) j.set("hold", J::num(1));
    if (op.fk) { J f = J::obj(); f.set("alloc", J::num(op.fk)); f.set("mode", J::str(op.fm == 2 ? "sticky" : "once")); j.set("fault", f); }
    j.set("says", J::str(w.render(op)));
    return j;
}
J plan_to_json(const Plan &p, World &w) {
    J j = J::obj();
    j.set("v", J::num(1));
    j.set("property", J::str(p.prop));
    j.set("world", J::str(p.cfg.world));
    j.set("mode", J::str(p.mode));
    j.set("variant", J::str(p.variant));
    j.set("seed", J::str("0x" + hex64(p.seed)));
    J c = J::obj();
    for (auto &kv : p.cfg.p) c.set(kv.first, J::num(kv.second));
    j.set("cfg", c);
    J cl = J::arr();
    for (auto &ops : p.clients) { J a = J::arr(); for (auto &op : ops) a.push(op_to_json(op, w)); cl.push(a); }
    j.set("clients", cl);
    J s = J::arr(); for (int d : p.sched) s.push(J::num(d));
    j.set("sched", s);
    if (!p.exp_class.empty()) {
        J e = J::obj();
        e.set("class", J::str(p.exp_class)); e.set("oracle", J::str(p.exp_oracle)); e.set("signature", J::str(p.exp_sig)); e.set("trace", J::str(p.exp_trace));
        j.set("expect", e);
    }
    return j;
}
bool plan_from_json(const J &j, Plan &p, std::string *err) {
    p = Plan();
    p.prop = j.gets("property"); p.mode = j.gets("mode"); p.variant = j.gets("variant");
    p.cfg.world = j.gets("world");
    std::string sd = j.gets("seed", "0");
    p.seed = strtoull(sd.c_str(), nullptr, 0);
    if (const J *c = j.get("cfg")) for (auto &kv : c->o) p.cfg.p[kv.first] = (long)kv.second.n;
    std::unique_ptr<World> w(make_world(p.cfg.world));
    if (!w) { if (err) *err = "unknown world " + p.cfg.world; return false; }
    if (const J *cl = j.get("clients")) for (auto &a : cl->a) {
        std::vector<Op> ops;
        for (auto &o : a.a) {
            Op op; std::string name = o.gets("op");
            bool found = false;
            for (size_t i = 0; i < w->opnames().size(); i++) if (w->opnames()[i] == name) { op.k = (int)i; found = true; }
            if (!found) { if (err) *err = "unknown op " + name; return false; }
            op.a = (int)o.geti("a"); op.b = (int)o.geti("b"); op.c = (int)o.geti("c"); op.d = (int)o.geti("d");
            op.h = (int)o.geti("hold");
            if (const J *f = o.get("fault")) { op.fk = (int)f->geti("alloc"); op.fm = f->gets("mode") == "sticky" ? 2 : 1; }
            ops.push_back(op);
        }
        p.clients.push_back(ops);
    }
    if (const J *s = j.get("sched")) for (auto &d : s->a) p.sched.push_back((int)d.n);
    if (const J *e = j.get("expect")) { p.exp_class = e->gets("class"); p.exp_oracle = e->gets("oracle"); p.exp_sig = e->gets("signature"); p.exp_trace = e->gets("trace"); }
    return true;
}

// ---------------------------------------------------------------- Ctx
bool Ctx::enabled(const char *oracle) const {
    std::string o = oracle;
    if (o == "result") return o_result;
    if (o == "struct") return o_struct;
    if (o == "mem") return o_mem;
    if (o == "alias") return o_alias;
    if (o == "linz") return o_linz;
    if (o == "lock") return o_lock;
    if (o == "enomem") return o_enomem;
    if (o == "race") return o_race;
    if (o == "harness") return true;
    return false;
}
void Ctx::fail(const char *cls, const char *oracle, const std::string &detail) {
    Violation nv;
    nv.cls = cls; nv.oracle = oracle; nv.detail = detail; nv.client = cur_client; nv.opidx = cur_op; nv.opname = cur_opname;
    if (!enabled(oracle)) {
        // another property's oracle: note it, stop trusting this run (state may be wrong), but do not report
        if (collateral.size() < 4) collateral.push_back(nv);
        st.add((std::string("collateral.") + oracle).c_str());
        throw Abort();
    }
    if (!failed) { failed = true; v = nv; }
    throw Abort();
}
void Ctx::hold(void *p, const Bytes &expect, const char *what) {
    if (pool.size() >= 512) { verify_pool("after later calls"); release_pool(); }   // bound the cost of long histories
    pool.push_back(Held{p, expect, what});
}
void Ctx::verify_pool(const char *when) {
    for (auto &h : pool) {
        if (memcmp(h.p, h.expect.data(), h.expect.size()) != 0) {
            Bytes now((const char *)h.p, h.expect.size());
            std::string d = std::string("copy returned by ") + h.what + " changed " + when + ": was " + hexs(h.expect) + " now " + hexs(now);
            // drop the pool first (do not free: ownership is unclear once aliasing is suspected)
            pool.clear();
            fail("alias", "alias", d);
        }
    }
    st.add("pool.verified", pool.size());
}
void Ctx::release_pool() {
    for (auto &h : pool) free(h.p);
    pool.clear();
}

// ---------------------------------------------------------------- misc
Bytes gen_value(int vseed, int vlen, int klass) {
    // klass: 0 random bytes, 1 printable string + NUL terminator, 2 all zero, 3 embedded NULs, 4 trailing NUL bytes, 5 high-bit/control string + NUL
    if (vlen < 1) vlen = 1;
    Bytes b((size_t)vlen, '\0');
    uint64_t x = (uint64_t)(unsigned)vseed * 0x9e3779b97f4a7c15ULL + 12345;
    auto nx = [&]() { return Rng::splitmix(x); };
    switch (klass) {
    case 1: for (int i = 0; i < vlen - 1; i++) b[i] = (char)('!' + nx() % 94); b[vlen - 1] = 0; break;
    case 2: break;
    case 3: for (int i = 0; i < vlen; i++) b[i] = (nx() % 3 == 0) ? 0 : (char)(nx() & 0xff); break;
    case 4: for (int i = 0; i < vlen; i++) b[i] = (char)(1 + nx() % 255); for (int i = std::max(0, vlen - 2); i < vlen; i++) b[i] = 0; break;
    case 5: for (int i = 0; i < vlen - 1; i++) { unsigned c = 1 + nx() % 255; b[i] = (char)c; } b[vlen - 1] = 0; break;
    default: for (int i = 0; i < vlen; i++) b[i] = (char)(nx() & 0xff); break;
    }
    // stamp the seed into the head so that values written by different ops differ (unique values)
    if (klass != 2) {
        char tag[16]; int n = snprintf(tag, sizeof tag, "%x.", (unsigned)vseed);
        int lim = (klass == 1 || klass == 5) ? vlen - 1 : (klass == 4 ? vlen - 2 : vlen);
        for (int i = 0; i < n && i < lim; i++) b[i] = tag[i];
    }
    return b;
}
std::string World::render(const Op &op) const {
    char buf[160];
    snprintf(buf, sizeof buf, "%s(%d,%d,%d,%d)", opnames()[op.k].c_str(), op.a, op.b, op.c, op.d);
    return buf;
}
