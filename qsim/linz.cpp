// Linearizability checker (Wing-Gong search with memoisation on (linearised set, model state)).
#include "runner.h"
#include <unordered_set>

namespace {
struct Search {
    const std::vector<HistOp> &h;
    const std::string &final_dump;
    std::unordered_set<uint64_t> dead;
    uint64_t explored = 0;
    std::string best_why;
    size_t best_depth = 0;
    Search(const std::vector<HistOp> &h_, const std::string &f) : h(h_), final_dump(f) {}

    bool go(Model &m, uint32_t done, size_t depth) {
        size_t n = h.size();
        if (done == (n >= 32 ? 0xffffffffu : ((1u << n) - 1))) {
            if (m.dump() == final_dump) return true;
            if (depth >= best_depth) { best_depth = depth; best_why = "every order that explains the results leaves contents " + hexs(m.dump(), 100) + " but the container holds " + hexs(final_dump, 100); }
            return false;
        }
        uint64_t key = m.hash() * 1000003ULL ^ done;
        if (dead.count(key)) return false;
        explored++;
        if (explored > 2000000) return true;   // give up soundly: never claim a violation we could not establish
        // minimal response time among undone ops: an op may go next only if it was invoked before that
        uint64_t minres = ~0ULL;
        for (size_t i = 0; i < n; i++) if (!(done >> i & 1) && h[i].res < minres) minres = h[i].res;
        for (size_t i = 0; i < n; i++) {
            if (done >> i & 1) continue;
            if (h[i].inv > minres) continue;
            std::unique_ptr<Model> c(m.clone());
            Result r = c->apply(h[i].op);
            if (r != h[i].got) {
                if (depth >= best_depth) {
                    best_depth = depth;
                    best_why = "client " + std::to_string(h[i].client) + " op#" + std::to_string(h[i].idx) + " returned " + h[i].got.show() +
                               " but after " + std::to_string(depth) + " linearised op(s) the model gives " + r.show();
                }
                continue;
            }
            if (go(*c, done | (1u << i), depth + 1)) return true;
        }
        dead.insert(key);
        return false;
    }
};
}

bool linearizable_from(Model &start, const std::vector<HistOp> &h, const std::string &final_dump, std::string *why, uint64_t *explored) {
    if (h.size() > 31) { if (explored) *explored = 0; return true; }
    Search s(h, final_dump);
    std::unique_ptr<Model> m(start.clone());
    bool ok = s.go(*m, 0, 0);
    if (explored) *explored = s.explored;
    if (!ok && why) *why = "no sequential order explains the history: " + s.best_why;
    return ok;
}
