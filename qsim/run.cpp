// Plan generation and execution (seq, enum, threads, lockbal)
#include "runner.h"
#include "wutil.h"
#include <algorithm>
#include <unordered_set>

Profile profile_for(const std::string &prop) {
    Profile p; p.prop = prop;
    auto W = [&](std::initializer_list<const char *> l) { for (auto s : l) p.worlds.push_back(s); };
    auto M = [&](std::initializer_list<const char *> l) { for (auto s : l) p.modes.push_back(s); };
    if (prop == "C01" || prop == "C02" || prop == "C03" || prop == "C04") { W({"treetbl"}); M({"seq"}); }
    else if (prop == "C05") { W({"hashtbl"}); M({"seq"}); }
    else if (prop == "C06" || prop == "C07") { W({"hasharr"}); M({"seq"}); }
    else if (prop == "C08") { W({"listtbl"}); M({"seq"}); }
    else if (prop == "C09") { W({"list"}); M({"seq"}); }
    else if (prop == "C10") { W({"vector"}); M({"seq"}); }
    else if (prop == "C11") { W({"treetbl", "hashtbl", "hasharr", "listtbl", "list", "vector"}); M({"seq", "seq", "seq", "threads"}); }
    else if (prop == "C12") { W({"treetbl", "hashtbl", "hasharr", "listtbl", "list", "vector"}); M({"seq"}); }
    else if (prop == "C13") { W({"treetbl", "hashtbl", "listtbl", "list", "vector"}); M({"threads"}); }
    else if (prop == "C14") { W({"treetbl", "hashtbl", "listtbl", "list", "vector", "qlog"}); M({"lockbal", "lockbal", "lockbal", "threads"}); }
    else if (prop == "C15") { W({"treetbl", "hashtbl", "hasharr", "listtbl", "list", "vector"}); M({"enum", "enum", "enum", "seq"}); }
    return p;
}

void set_oracles(Ctx &x, const std::string &prop) {
    x.prop = prop;
    x.o_result = (prop == "C01" || prop == "C03" || prop == "C04" || prop == "C05" || prop == "C06" || prop == "C07" || prop == "C08" ||
                  prop == "C09" || prop == "C10" || prop == "C12");
    x.o_struct = (prop == "C02" || prop == "C07" || prop == "C15");
    x.o_mem = (prop == "C11" || prop == "C15");
    x.o_alias = (prop == "C12");
    x.o_linz = x.o_race = (prop == "C13");
    x.o_lock = (prop == "C14");
    x.o_enomem = (prop == "C15");
}

static bool world_available(const std::string &w) {
    for (auto &n : world_names()) if (n == w) return true;
    return false;
}

Plan generate_plan(const std::string &prop, const std::string &tier, uint64_t base_seed, uint64_t index, const std::string &variant) {
    Plan p;
    p.prop = prop; p.variant = variant;
    p.seed = mix_seed(base_seed, prop, tier, index);
    Rng r(p.seed);
    Profile pf = profile_for(prop);
    std::vector<std::string> ws;
    for (auto &w : pf.worlds) if (world_available(w)) ws.push_back(w);
    if (ws.empty()) { fprintf(stderr, "qsim: no world for %s\n", prop.c_str()); exit(2); }
    std::string wn = ws[index % ws.size()];
    p.mode = pf.modes[(index / ws.size()) % pf.modes.size()];
    if (wn == "hasharr" && p.mode == "threads") p.mode = "seq";        // no locking in qhasharr
    if (wn == "qlog" && p.mode != "threads") p.mode = "lockbal";
    std::unique_ptr<World> w(make_world(wn));
    w->gen_cfg(r, prop, p.mode, p.cfg);
    p.cfg.set("kalign", r.chance(1, 3) ? r.range(1, 3) : 0);      // caller buffers start at an address that is 1..3 bytes off a word boundary
    if (tier == "thorough" && p.mode == "seq" && r.chance(1, 3)) p.cfg.set("nops", p.cfg.get("nops") * 3);
    w->init(p.cfg);
    GenState g;
    if (p.mode == "seq") {
        int n = (int)p.cfg.get("nops", 40);
        std::vector<Op> ops;
        bool swarm_faults = (prop == "C15") || (prop == "C02" && r.chance(1, 3));   // C02: "after every operation, whether it succeeded or failed"   // C11 is about fault-free histories; memory errors under ENOMEM belong to C15
        int frate = swarm_faults ? r.pick(std::vector<int>{3, 6, 12}) : 0;
        for (int i = 0; i < n; i++) {
            Op op = w->gen_op(r, prop, p.mode, g);
            if (frate && r.chance(frate, 100)) { op.fk = r.range(1, 5); op.fm = r.chance(1, 4) ? 2 : 1; }
            ops.push_back(op);
        }
        p.clients.push_back(ops);
    } else if (p.mode == "enum" || p.mode == "lockbal") {
        int h = r.chance(1, 5) ? 0 : r.range(1, r.chance(1, 3) ? 60 : 15);
        int s = r.range(2, 8);
        std::vector<Op> ops;
        for (int i = 0; i < h; i++) ops.push_back(w->gen_op(r, prop, p.mode, g));
        int tgt = (int)ops.size();
        if (r.chance(1, 12)) tgt = -1;                   // the constructor is the target
        else {
            Op t = w->gen_op(r, prop, p.mode, g);
            if (p.mode == "lockbal" && r.chance(1, 4)) t.h = 1;      // issued inside the client's own lock()/unlock() section
            ops.push_back(t);
        }
        for (int i = 0; i < s; i++) ops.push_back(w->gen_op(r, prop, p.mode, g));
        p.cfg.set("tgt", tgt);
        p.cfg.set("nops", (long)ops.size());
        p.clients.push_back(ops);
    } else if (p.mode == "threads") {
        bool deep = tier == "thorough";
        int nt = deep ? r.pick(std::vector<int>{2, 3, 3, 4, 4, 5}) : r.pick(std::vector<int>{2, 2, 2, 3, 3, 4});
        int budget = deep ? 28 : 20;      // total operations; the linearizability checker takes at most 31
        // a short sequential prefix by client 0 fills the container a little
        for (int c = 0; c < nt; c++) {
            int n = r.range(1, std::min(6, std::max(1, budget / nt)));
            std::vector<Op> ops;
            for (int i = 0; i < n; i++) ops.push_back(w->gen_op(r, prop, p.mode, g));
            p.clients.push_back(ops);
        }
        p.cfg.set("p_cont", r.pick(std::vector<int>{20, 50, 70, 90}));
        p.cfg.set("stall", (variant == "tsan") ? 0 : (prop == "C14" ? r.pick(std::vector<int>{100, 300}) : (r.chance(1, 5) ? r.pick(std::vector<int>{30, 100}) : 0)));
        p.cfg.set("prefill", r.range(0, 4));
    }
    return p;
}

// ------------------------------------------------------------------ seq execution
struct SeqOpts { int ctor_fk = 0, ctor_fm = 0; bool probe = false; int probe_at = -1; };

static void check_dump(World &w, Model &m, Ctx &x, const char *when, bool after_fault = false) {
    Bookkeeping bk;
    std::string sd = w.sut_dump(x), md = m.dump();
    if (sd == md) return;
    std::string what = std::string("observable contents differ from the model ") + when + ": table " + hexs(sd, 120) + " model " + hexs(md, 120);
    // once an allocation failure has been injected, wrong contents are C15's verdict ("completes correctly or reports failure", "later operations behave normally")
    if (after_fault && x.o_enomem) x.fail("wrong-contents-after-fault", "enomem", what);
    x.fail("contents-mismatch", "result", what);
}

// run client 0's ops sequentially against SUT and model. Used directly (seq) and for each derived case (enum/lockbal).
static void run_seq_body(const Plan &p, World &w, Ctx &x, const SeqOpts &so) {
    std::unique_ptr<Model> model(w.new_model());
    sim_alloc_reset();
    sim_lock_depth_reset();
    sim_errno_reset();
    bool ts = p.cfg.get("ts") != 0;
    const std::vector<Op> &ops = p.clients.empty() ? *new std::vector<Op>() : p.clients[0];
    bool created = false;
    int total_fired = 0;
    try {
        x.cur_op = -1; x.cur_opname = "constructor";
        sim_op_begin(-1, so.ctor_fk, so.ctor_fm);
        bool ok = w.sut_create(x);
        int fired = sim_fault_fired();
        x.ctor_allocs = sim_op_end();
        if (!ok) {
            if (!fired) x.fail("ctor-failed", "harness", "constructor failed without an injected fault");
            x.st.add("fault.ctor_reported_failure");
            std::string d; size_t live = sim_ledger_live(&d);
            if (live) x.fail("leak", x.o_enomem ? "enomem" : "mem", "failed constructor left " + num((long long)live) + " block(s) allocated: " + d);
            if (ts && sim_lock_depth() != 0) x.fail("lock-depth", "lock", "constructor returned with lock depth " + num(sim_lock_depth()));
            // later operations behave normally: build it again without a fault
            sim_op_begin(-1, 0, 0);
            ok = w.sut_create(x);
            sim_op_end();
            if (!ok) x.fail("ctor-failed", "harness", "constructor failed without an injected fault");
        } else if (fired) x.st.add("fault.ctor_survived");
        created = true;
        if (ts && w.sut_sees_mutex() && w.sut_mutex() == nullptr) {
            // a constructor asked for a thread-safe container and returned one without a lock (e.g. after the allocation of the
            // mutex failed): that is neither "completed correctly" nor "reported failure"
            // (every call on it still returns with the lock depth unchanged: C15's and C13's business, not C14's)
            x.fail("no-lock", fired ? "enomem" : "linz", "the constructor returned a container created with the thread-safe option that has no lock" + std::string(fired ? " (after an injected allocation failure)" : ""));
        }
        for (size_t i = 0; i < ops.size(); i++) {
            x.cur_op = (int)i; x.cur_opname = w.opnames()[ops[i].k];
            std::unique_ptr<Model> before;
            x.trace_prefix = x.trace;
            Op op2 = ops[i];
            { Bookkeeping bk; w.sut_prepare(op2); }
            const Op &op = op2;
            if (op.fk) { before.reset(model->clone()); }
            Result exp = model->apply(op);
            int d0 = sim_lock_depth();
            bool held = op.h && ts && w.sut_user_lock();
            if (held) x.st.add("probe.op_under_client_lock");
            sim_op_begin((int)i, op.fk, op.fm);
            Result got = w.sut_apply(op, x);
            int fired = sim_fault_fired();
            int allocs = sim_op_end();
            if (held) {
                int dc0 = sim_take_depth_change();
                // (a depth below zero proves that an acquisition went through a primitive the simulator does not see: no verdict)
                if (sim_lock_depth() < 0) x.st.add("lock.unobserved_acquire");
                else if (dc0 != 0 || sim_lock_depth() != d0 + 1) {
                    x.fail("lock-depth", "lock", w.render(op) + " called while the client held the lock returned " + got.show() + " with the lock depth changed (the client's critical section is open)");
                }
                w.sut_force_unlock();
            }
            total_fired += fired;
            if ((int)i == (int)p.cfg.get("tgt", -2)) x.tgt_allocs = allocs;
            x.st.add("ops");
            x.st.add("allocs", (uint64_t)allocs);
            if (op.fk) { x.st.add("fault.alloc.planned"); if (fired) x.st.add("fault.alloc.fired", (uint64_t)fired); }
            x.tr(w.opnames()[op.k] + " -> " + got.show());
            if (x.o_lock || x.o_enomem) {
                // function x outcome table (evidence): which exits of which operation were actually taken
                const char *oc = !got.fail ? (fired ? "ok_despite_fault" : "ok") : (fired ? "enomem_reported" : "refused");
                x.st.add(("cell." + p.cfg.world + "." + w.opnames()[op.k] + "." + oc).c_str());
            }
            if (ts) {
                int dc = sim_take_depth_change();
                if (sim_lock_depth() < 0) x.st.add("lock.unobserved_acquire");
                else if (dc != 0 && sim_lock_depth() == d0) {
                    x.fail("lock-depth", "lock", "inside " + w.render(op) + " a single call returned with the container lock depth changed by " + num(dc) + " (entered with the lock held by the caller)");
                }
                int d1 = sim_lock_depth();
                if (d1 < 0) x.st.add("lock.unobserved_acquire");
                else if (d1 != d0) {
                    int leaked = d1 - d0;
                    // release what the call leaked so that teardown does not spin in Q_MUTEX_DESTROY
                    for (int k = 0; k < leaked; k++) w.sut_force_unlock();
                    x.fail("lock-depth", "lock", w.render(op) + " returned " + got.show() + " with the container lock depth changed by " + num(leaked));
                }
                if (so.probe && (int)i == so.probe_at && sim_self() == 0) {
                    bool done = sim_probe_run();
                    x.st.add("lock.probes");
                    if (!done) {
                        w.sut_force_unlock();
                        sim_probe_resume();
                        x.fail("probe-starved", "lock", "after " + w.render(op) + " another thread's operation did not complete within 3 spin budgets");
                    }
                }
            }
            if (fired > 0 && w.result_is_ambiguous(op)) {
                // completed or given up? the contents decide (the model has already applied the operation)
                std::string sd, after = model->dump(), bef = before ? before->dump() : after;
                { Bookkeeping bk; sd = w.sut_dump(x); }
                if (sd == after) { if (!exp.fail) got.fail = false; }     // completed: what it returned must then be the right value
                else if (sd == bef) { model.reset(before.release()); x.st.add("fault.reported_failure"); got = exp; fired = -1; }
                else x.fail("state-changed-after-failed-call", "enomem", w.render(op) + " under allocation fault #" + num(op.fk) + (op.fm == 2 ? " (sticky)" : "") + " neither completed nor left the contents alone: table " + hexs(sd, 100) + " before " + hexs(bef, 100) + " completed " + hexs(after, 100));
            }
            if (got != exp) {
                if (fired > 0 && got.fail) {
                    // reported failure under an injected fault: contents must be exactly what they were
                    model.reset(before.release());
                    x.st.add("fault.reported_failure");
                    std::string sd, md = model->dump();
                    { Bookkeeping bk; sd = w.sut_dump(x); }
                    if (sd != md) x.fail("state-changed-after-failed-call", "enomem", w.render(op) + " reported failure under allocation fault #" + num(op.fk) + (op.fm == 2 ? " (sticky)" : "") + " but contents changed: table " + hexs(sd, 100) + " expected " + hexs(md, 100));
                } else if (fired > 0) {
                    x.fail("wrong-result-under-fault", "enomem", w.render(op) + " under allocation fault #" + num(op.fk) + " returned " + got.show() + " expected " + exp.show());
                } else if (x.o_enomem && total_fired > 0) {
                    x.fail("misbehaves-after-fault", "enomem", "after an earlier injected allocation failure, " + w.render(op) + " returned " + got.show() + " expected " + exp.show());
                } else {
                    x.fail("result-mismatch", "result", w.render(op) + " returned " + got.show() + " expected " + exp.show());
                }
            } else if (fired > 0) x.st.add("fault.survived");
            if (w.is_mutation(op) && !got.fail) x.mutations++;
            if (x.o_struct) { Bookkeeping bk; w.sut_struct(x); }
            if (x.o_alias && w.is_mutation(op)) x.verify_pool("after a later mutation");
            if ((x.o_result || x.o_enomem) && ((i & 15) == 15 || fired > 0)) check_dump(w, *model, x, "after the operation", total_fired > 0);
        }
        x.cur_op = (int)ops.size(); x.cur_opname = "end";
        if (x.o_result || x.o_enomem) check_dump(w, *model, x, "at the end of the history", total_fired > 0);
        if (x.o_struct) w.sut_struct(x);
        x.verify_pool("before the container was freed");
        x.cur_opname = "free";
        { sim_op_begin((int)ops.size(), 0, 0); w.sut_destroy(x); sim_op_end(); }
        if (ts && sim_lock_depth() < 0) x.st.add("lock.unobserved_acquire");
        if (ts && sim_lock_depth() > 0) x.fail("lock-depth", "lock", "free() returned with lock depth " + num(sim_lock_depth()));
        x.verify_pool("after the container was freed");
        x.release_pool();
        std::string d; size_t live = sim_ledger_live(&d);
        if (live) x.fail("leak", "mem", num((long long)live) + " block(s) allocated by the container were never freed: " + d);
    } catch (Abort &) {
        if (created) w.sut_abandon();
        // keep pool blocks: ownership unclear after a failure
        x.pool.clear();
    }
}

// ------------------------------------------------------------------ threads execution
static void run_threads_body(const Plan &p, World &w, Ctx &x, RunOut &out, bool replay_sched) {
    std::unique_ptr<Model> model(w.new_model());
    sim_alloc_reset(); sim_lock_depth_reset(); sim_race_reset(); sim_errno_reset();
    size_t nc = p.clients.size();
    try {
        sim_op_begin(-1, 0, 0);
        if (!w.sut_create(x)) x.fail("ctor-failed", "harness", "constructor failed");
        sim_op_end();
    } catch (Abort &) { return; }
    std::vector<HistOp> hist;
    // sequential prefill by the main thread (part of the history, strictly before everything else)
    uint64_t ev0 = 0;
    {
        Rng pr(p.seed ^ 0x77aa55);
        GenState g;
        int pre = (int)p.cfg.get("prefill");
        try {
            for (int i = 0; i < pre; i++) {
                Op op = w.gen_op(pr, p.prop, "threads", g);
                if (!w.is_mutation(op)) continue;
                Result exp = model->apply(op);
                sim_op_begin(-2, 0, 0);
                Result got = w.sut_apply(op, x);
                sim_op_end();
                if (got != exp) x.fail("result-mismatch", "result", "prefill " + w.render(op) + " returned " + got.show() + " expected " + exp.show());
            }
        } catch (Abort &) { w.sut_abandon(); return; }
    }
    (void)ev0;
    std::vector<Ctx> cx(nc);
    std::vector<std::vector<HistOp>> rec(nc);
    for (size_t c = 0; c < nc; c++) {
        cx[c].plan = &p; set_oracles(cx[c], p.prop); cx[c].cur_client = (int)c; cx[c].verbose = false;
        rec[c].resize(p.clients[c].size());
        cx[c].pool.reserve(256);
    }
    volatile bool stop = false;
    volatile bool stop_clean = false;     // a client gave up (another property's oracle) while the schedule was still healthy
    std::vector<std::function<void()>> bodies;
    for (size_t c = 0; c < nc; c++) {
        bodies.push_back([&, c]() {
            Ctx &me = cx[c];
            for (size_t i = 0; i < p.clients[c].size(); i++) {
                if (stop) break;
                const Op &op = p.clients[c][i];
                HistOp &h = rec[c][i];
                h.client = (int)c; h.idx = (int)i; h.op = op;
                me.cur_op = (int)i;
                sim_yield(Y_OP);
                h.inv = sim_event();
                try {
                    sim_op_begin((int)i, 0, 0);
                    h.got = w.sut_apply(op, me);
                    sim_op_end();
                } catch (Abort &) { if (!sim_poisoned()) stop_clean = true; stop = true; h.res = sim_event(); break; }
                if (w.is_mutation(op) && !h.got.fail) me.mutations++;
                me.st.add("ops");
                h.res = sim_event();
                sim_yield(Y_OP);
            }
        });
    }
    SchedCfg sc; SchedOut so;
    sc.nthreads = (int)nc; sc.seed = p.seed; sc.p_cont = (int)p.cfg.get("p_cont", 60); sc.stall_permille = (int)p.cfg.get("stall", 0);
    sc.max_decisions = 3000;
    if (replay_sched) { sc.use_replay = true; sc.replay = p.sched.data(); sc.nreplay = (int)p.sched.size(); }
    sim_run_threads(sc, bodies, so);
    out.sched = so.decisions;
    x.st.add("sched.decisions", so.ndecisions); x.st.add("sched.switches", so.switches); x.st.add("sched.blocked_on_lock", so.blocked);
    x.st.add("sched.forced_unlock", so.forced_unlock); x.st.add("fault.stall.fired", so.stalls); x.st.add("sim_us", so.sim_us);
    if (p.cfg.get("stall", 0) > 0) x.st.add("fault.stall.planned");
    if (so.blocked) x.st.add("probe.waiter_blocked_on_held_lock", so.blocked);
    if (so.forced_unlock) x.st.add("probe.forced_unlock_path_executed", so.forced_unlock);
    if (so.switches) x.st.add("probe.context_switches_between_clients", so.switches);
    for (size_t c = 0; c < nc; c++) { x.st.merge(cx[c].st); x.mutations += cx[c].mutations; }
    // trace = schedule-sensitive: results in event order
    for (size_t c = 0; c < nc; c++) for (auto &h : rec[c]) if (h.res) hist.push_back(h);
    std::sort(hist.begin(), hist.end(), [](const HistOp &a, const HistOp &b) { return a.inv < b.inv; });
    for (auto &h : hist) x.tr("c" + num(h.client) + "." + num(h.idx) + " " + w.opnames()[h.op.k] + " [" + num((long long)h.inv) + "," + num((long long)h.res) + "] -> " + h.got.show());
    {
        uint64_t sh = 1469598103934665603ULL;
        for (int d : so.decisions) sh = fnv1a(&d, sizeof d, sh);
        x.st.c["_schedhash"] = sh;
    }
    try {
        for (size_t c = 0; c < nc; c++) if (cx[c].failed) { x.failed = true; x.v = cx[c].v; throw Abort(); }
        if (so.truncated) { out.truncated = true; x.st.add("truncated"); throw Abort(); }
        // a client that gave up in the middle of its own lock()/unlock() section leaves the lock held: what follows
        // (waiters starving, depth left over) is the harness's doing, not a verdict about the library's locking
        if (stop_clean) throw Abort();
        if (so.deadlock) {
            x.cur_opname = "schedule";
            x.fail("no-progress", "lock", "every live thread waits for the container lock and nobody will release it");
        }
        if (so.leaked_depth < 0) x.st.add("lock.unobserved_acquire");
        if (so.leaked_depth > 0) {
            x.cur_opname = "schedule";
            x.fail("lock-depth", "lock", "a client thread finished its operations still holding the container lock");
        }
        if (stop) throw Abort();
        std::string final_dump = w.sut_dump(x);
        x.tr("final " + hexs(final_dump, 200));
        if (sim_race_reports() > 0) {
            x.cur_opname = "race";
            x.fail("data-race", "race", sim_race_last());
        }
        // prepend the prefill as already-applied state: the model was advanced above
        std::string why; uint64_t explored = 0;
        // linearizability over the concurrent part, starting from the prefilled model
        bool lin = linearizable_from(*model, hist, final_dump, &why, &explored);
        x.st.add("linz.states", explored);
        if (!lin) { x.cur_opname = "history"; x.fail("not-linearizable", "linz", why); }
        x.cur_opname = "free";
        for (size_t c = 0; c < nc; c++) cx[c].verify_pool("before the container was freed");
        w.sut_destroy(x);
        for (size_t c = 0; c < nc; c++) { cx[c].verify_pool("after the container was freed"); cx[c].release_pool(); }
        x.release_pool();
        std::string d; size_t live = sim_ledger_live(&d);
        if (live) x.fail("leak", "mem", num((long long)live) + " block(s) never freed: " + d);
    } catch (Abort &) {
        for (size_t c = 0; c < nc; c++) { if (!x.failed && cx[c].failed) { x.failed = true; x.v = cx[c].v; } cx[c].pool.clear(); for (auto &cv : cx[c].collateral) x.collateral.push_back(cv); }
        w.sut_abandon();
        x.pool.clear();
    }
}

// ------------------------------------------------------------------ top level
static void finish(const Plan &p, World &w, Ctx &x, RunOut &out) {
    out.failed = x.failed; out.v = x.v; out.collateral = x.collateral; out.trace = (x.failed && x.trace_prefix) ? x.trace_prefix : x.trace;
    uint64_t sh = 0;
    auto it = x.st.c.find("_schedhash");
    if (it != x.st.c.end()) { sh = it->second; x.st.c.erase(it); }
    out.st.merge(x.st);
    bool probe_hit = false;
    for (auto &kv : x.st.c) if (kv.first.compare(0, 6, "probe.") == 0 || kv.first.compare(0, 6, "fault.") == 0 || kv.first == "sched.switches") probe_hit = probe_hit || kv.second > 0;
    (void)w;
    if (x.mutations >= 3 && (probe_hit || p.mode == "seq")) out.nontrivial_hash = x.trace ^ (sh * 31) ^ fnv1a(p.cfg.world);
    if (out.failed) out.failing = p;
}

void execute_plan(const Plan &p, RunOut &out, bool verbose, const std::string &scratch, std::function<void(int, int)> on_case) {
    std::unique_ptr<World> w(make_world(p.cfg.world));
    if (!w) { fprintf(stderr, "qsim: unknown world %s\n", p.cfg.world.c_str()); exit(2); }
    w->init(p.cfg);
    g_caller_misalign = (int)p.cfg.get("kalign");
    sim_clock_reset();
    if (p.mode == "seq") {
        Ctx x; x.plan = &p; set_oracles(x, p.prop); x.verbose = verbose; x.scratch = scratch;
        SeqOpts so; so.ctor_fk = (int)p.cfg.get("ctor_fk"); so.ctor_fm = (int)p.cfg.get("ctor_fm");
        run_seq_body(p, *w, x, so);
        finish(p, *w, x, out);
        out.cases = 1;
        return;
    }
    if (p.mode == "threads") {
        Ctx x; x.plan = &p; set_oracles(x, p.prop); x.verbose = verbose; x.scratch = scratch;
        run_threads_body(p, *w, x, out, !p.sched.empty() || p.cfg.get("replay") != 0);
        finish(p, *w, x, out);
        if (out.failed) { out.failing.sched = out.sched; out.failing.cfg.set("replay", 1); }
        out.cases = 1;
        return;
    }
    if (p.mode == "enum" || p.mode == "lockbal") {
        // derived plans: the same history with an explicit fault on the target op (or the constructor)
        bool lockbal = p.mode == "lockbal";
        int tgt = (int)p.cfg.get("tgt");
        auto run_case = [&](const Plan &dp, Ctx &x) {
            sim_clock_reset();      // every derived case starts at the same simulated instant as its stand-alone replay
            SeqOpts so; so.ctor_fk = (int)dp.cfg.get("ctor_fk"); so.ctor_fm = (int)dp.cfg.get("ctor_fm");
            so.probe = lockbal; so.probe_at = (int)dp.cfg.get("tgt");
            if (!lockbal) { run_seq_body(dp, *w, x, so); return; }
            std::vector<std::function<void()>> bodies;
            bodies.push_back([&]() { run_seq_body(dp, *w, x, so); });
            bodies.push_back([&]() { Ctx px; while (sim_probe_wait()) { w->sut_probe(px); sim_probe_done(); } });
            SchedCfg sc; SchedOut sout; sc.nthreads = 2; sc.lockstep = true; sc.seed = dp.seed;
            sim_run_threads(sc, bodies, sout);
            x.st.add("sched.forced_unlock", sout.forced_unlock);
            x.st.add("sim_us", sout.sim_us);
        };
        if (p.cfg.get("derived")) {
            // a concrete derived case (replay / shrink)
            Ctx x; x.plan = &p; set_oracles(x, p.prop); x.verbose = verbose; x.scratch = scratch;
            run_case(p, x);
            finish(p, *w, x, out);
            out.cases = 1;
            return;
        }
        // 1. dry run (fault-free), counting the allocations made inside the target
        Plan dry = p; dry.cfg.set("derived", 1);
        int A = 0;
        {
            Ctx x; x.plan = &dry; set_oracles(x, p.prop); x.scratch = scratch; x.verbose = verbose;
            if (on_case) on_case(0, 0);
            run_case(dry, x);
            if (x.failed) { finish(dry, *w, x, out); out.cases = 1; return; }
            out.st.merge(x.st);
            out.trace = x.trace;
            for (auto &cv : x.collateral) if (out.collateral.size() < 4) out.collateral.push_back(cv);
            if (!x.collateral.empty()) { out.cases = 1; return; }   // another property's defect on the way: nothing to enumerate
            A = tgt >= 0 ? x.tgt_allocs : x.ctor_allocs;
            if (A < 0) A = 0;
        }
        if (A > 40) A = 40;
        out.st.add("enum.targets");
        out.st.add("enum.target_allocs", (uint64_t)A);
        out.cases = 1;
        // 2. every allocation index, once and sticky
        for (int k = 1; k <= A; k++) {
            for (int mode = 1; mode <= 2; mode++) {
                if (mode == 2 && k == A) continue;     // sticky at the last allocation == once
                Plan dp = dry;
                if (tgt >= 0) { dp.clients[0][tgt].fk = k; dp.clients[0][tgt].fm = mode; }
                else { dp.cfg.set("ctor_fk", k); dp.cfg.set("ctor_fm", mode); }
                if (on_case) on_case(k, mode);
                Ctx x; x.plan = &dp; set_oracles(x, p.prop); x.verbose = verbose; x.scratch = scratch;
                run_case(dp, x);
                out.cases++;
                out.st.merge(x.st);
                out.trace = fnv1a(&x.trace, sizeof x.trace, out.trace);
                for (auto &cv : x.collateral) if (out.collateral.size() < 4) out.collateral.push_back(cv);
                if (x.failed) { out.failed = true; out.v = x.v; out.failing = dp; return; }
            }
        }
        if (A > 0) out.nontrivial_hash = out.trace ^ fnv1a(p.cfg.world);
        return;
    }
    fprintf(stderr, "qsim: unknown mode %s\n", p.mode.c_str());
    exit(2);
}
