// qsim command line: gen | run | replay | shrink
#include "runner.h"
#include <unistd.h>
#include <signal.h>
#include <sys/time.h>
#include <sys/wait.h>
#include <sys/stat.h>
#include <fcntl.h>
#include <fstream>
#include <sstream>
#include <unordered_set>
#include <time.h>

#ifdef QSIM_ASAN
extern "C" __attribute__((used)) const char *__asan_default_options() { return "exitcode=77:detect_leaks=0:abort_on_error=0:allocator_may_return_null=1:detect_stack_use_after_return=0:handle_segv=1"; }
extern "C" __attribute__((used)) const char *__ubsan_default_options() { return "print_stacktrace=1:halt_on_error=1:exitcode=77"; }
#endif

static std::string g_variant =
#if defined(QSIM_ASAN)
    "asan";
#elif defined(QSIM_TSAN)
    "tsan";
#else
    "plain";
#endif

static double now_s() { struct timespec ts; clock_gettime(CLOCK_MONOTONIC, &ts); return ts.tv_sec + ts.tv_nsec / 1e9; }

static volatile long g_cur_index = -1;
static void on_vtalrm(int) {
    char b[64]; int n = snprintf(b, sizeof b, "\nHANG %ld\n", g_cur_index);
    ssize_t r = write(1, b, (size_t)n); (void)r;
    _exit(78);
}
// The wall-clock backstop is for a harness deadlock (all threads parked burn no CPU) or a starved process: it says nothing
// about the library, so it ends the process with its own exit code (harness error), never as a "hang" verdict.
static void on_alrm(int) {
    char b[64]; int n = snprintf(b, sizeof b, "\nSTARVED %ld\n", g_cur_index);
    ssize_t r = write(1, b, (size_t)n); (void)r;
    _exit(79);
}
static void arm_watchdog(int cpu_seconds) {
    static int scale = 0;
    if (!scale) { const char *e = getenv("QSIM_WATCHDOG_SCALE"); scale = e ? std::max(1, atoi(e)) : 1; }    // e.g. under valgrind
    cpu_seconds *= scale;
    struct sigaction sa; memset(&sa, 0, sizeof sa); sa.sa_handler = on_vtalrm; sigaction(SIGVTALRM, &sa, nullptr);
    struct itimerval it; memset(&it, 0, sizeof it); it.it_value.tv_sec = cpu_seconds; setitimer(ITIMER_VIRTUAL, &it, nullptr);
    struct sigaction sb; memset(&sb, 0, sizeof sb); sb.sa_handler = on_alrm; sigaction(SIGALRM, &sb, nullptr);
    it.it_value.tv_sec = cpu_seconds * 20 + 60; setitimer(ITIMER_REAL, &it, nullptr);
}
static void disarm_watchdog() { struct itimerval it; memset(&it, 0, sizeof it); setitimer(ITIMER_VIRTUAL, &it, nullptr); setitimer(ITIMER_REAL, &it, nullptr); }

static std::string slurp(const std::string &path) { std::ifstream f(path); std::stringstream ss; ss << f.rdbuf(); return ss.str(); }
static bool load_plan(const std::string &path, Plan &p) {
    std::string t = slurp(path), err; J j;
    if (!J::parse(t, j, &err)) { fprintf(stderr, "qsim: cannot parse %s: %s\n", path.c_str(), err.c_str()); return false; }
    if (!plan_from_json(j, p, &err)) { fprintf(stderr, "qsim: bad plan %s: %s\n", path.c_str(), err.c_str()); return false; }
    return true;
}
static void save_plan(const std::string &path, const Plan &p) {
    std::unique_ptr<World> w(make_world(p.cfg.world)); w->init(p.cfg);
    std::ofstream f(path); f << plan_to_json(p, *w).dump(1) << "\n";
}

static std::string one_line(std::string s) { for (auto &c : s) if (c == '\n' || c == '\r') c = ' '; return s; }

// ------------------------------------------------------------------ child execution (isolated, for replay and shrink)
struct Verdict { bool failed = false; std::string cls, oracle, sig, detail, trace; int opidx = -1; bool truncated = false; bool harness_error = false; std::vector<int> sched; };

static std::string classify_sanitizer(const std::string &errfile) {
    std::string t = slurp(errfile);
    size_t p = t.find("ERROR: AddressSanitizer: ");
    std::string kind = "unknown", where;
    if (p != std::string::npos) { size_t e = t.find_first_of(" \n", p + 25); kind = t.substr(p + 25, e - (p + 25)); }
    else if ((p = t.find("runtime error: ")) != std::string::npos) {
        // keep the words, drop addresses and numbers: the class of a violation must not depend on where the heap happened to be
        size_t e = t.find('\n', p);
        std::string msg = t.substr(p + 15, e - (p + 15)), w, out;
        std::vector<std::string> words;
        for (size_t i = 0; i <= msg.size(); i++) {
            char c = i < msg.size() ? msg[i] : ' ';
            if (c == ' ') { if (!w.empty() && !(w.size() > 1 && w[0] == '0' && w[1] == 'x') && !isdigit((unsigned char)w[0]) && w[0] != '-') words.push_back(w); w.clear(); }
            else if (isalnum((unsigned char)c) || c == '_' || c == '-') w += c;
        }
        for (size_t i = 0; i < words.size() && i < 6; i++) out += (i ? "_" : "") + words[i];
        kind = "ub:" + out;
    }
    else if (t.find("LeakSanitizer") != std::string::npos) kind = "leak";
    // first frame inside qlibc
    size_t q = 0;
    while ((q = t.find(" in ", q)) != std::string::npos) {
        size_t e = t.find('\n', q);
        std::string line = t.substr(q + 4, e - (q + 4));
        if (line.find("/src/containers/") != std::string::npos || line.find("/src/utilities/") != std::string::npos || line.find("/src/internal/") != std::string::npos || line.find("/src/extensions/") != std::string::npos) {
            where = line.substr(0, line.find(' '));
            break;
        }
        q = e == std::string::npos ? t.size() : e;
    }
    for (auto &c : kind) if (c == ' ') c = '_';
    while (!kind.empty() && kind.back() == ':') kind.pop_back();
    return kind + (where.empty() ? "" : "@" + where);
}

static int cpu_budget(const Plan &p) {
    size_t n = 0; for (auto &c : p.clients) n += c.size();
    int s = 3 + (int)(n / 100) + (int)(p.cfg.get("U") / 200);
    if (p.mode == "enum" || p.mode == "lockbal") s += 5;
#if defined(QSIM_ASAN) || defined(QSIM_TSAN)
    s *= 4;
#endif
    return s;
}
static Verdict run_isolated(const Plan &p, const std::string &scratch, bool verbose, int cpu_s = 0) {
    if (cpu_s <= 0) cpu_s = cpu_budget(p);
    Verdict v;
    int fds[2]; if (pipe(fds) != 0) { v.harness_error = true; return v; }
    std::string errfile = scratch + "/child.err";
    fflush(stdout); fflush(stderr);
    pid_t pid = fork();
    if (pid == 0) {
        close(fds[0]);
        if (!verbose) { int fd = open(errfile.c_str(), O_CREAT | O_TRUNC | O_WRONLY, 0644); if (fd >= 0) { dup2(fd, 2); close(fd); } }
        int dn = open("/dev/null", O_WRONLY); if (dn >= 0) { dup2(dn, 1); close(dn); }
        arm_watchdog(cpu_s);
        RunOut out;
        execute_plan(p, out, verbose, scratch);
        J j = J::obj();
        j.set("failed", J::boolean(out.failed)); j.set("truncated", J::boolean(out.truncated));
        j.set("cls", J::str(out.v.cls)); j.set("oracle", J::str(out.v.oracle)); j.set("sig", J::str(out.v.sig(p.cfg.world)));
        j.set("detail", J::str(out.v.detail)); j.set("trace", J::str(hex64(out.trace))); j.set("opidx", J::num(out.v.opidx));
        J s = J::arr(); for (int d : out.sched) s.push(J::num(d)); j.set("sched", s);
        std::string line = j.dump() + "\n";
        ssize_t r = write(fds[1], line.data(), line.size()); (void)r;
        _exit(0);
    }
    close(fds[1]);
    std::string buf; char tmp[4096]; ssize_t n;
    while ((n = read(fds[0], tmp, sizeof tmp)) > 0) buf.append(tmp, (size_t)n);
    close(fds[0]);
    int st = 0; waitpid(pid, &st, 0);
    J j;
    if (WIFEXITED(st) && WEXITSTATUS(st) == 0 && J::parse(buf, j)) {
        v.failed = j.geti("failed"); v.truncated = j.geti("truncated");
        v.cls = j.gets("cls"); v.oracle = j.gets("oracle"); v.sig = j.gets("sig"); v.detail = j.gets("detail"); v.trace = j.gets("trace"); v.opidx = (int)j.geti("opidx");
        if (const J *s = j.get("sched")) for (auto &d : s->a) v.sched.push_back((int)d.n);
        return v;
    }
    if (WIFEXITED(st) && WEXITSTATUS(st) == 79) { v.harness_error = true; v.cls = "starved"; v.detail = "wall-clock backstop: the process made no progress (harness deadlock or starved machine)"; v.trace = "died"; return v; }
    // the run died: that is a verdict about the SUT call in progress
    v.failed = true; v.oracle = "crash";
    if (WIFEXITED(st) && WEXITSTATUS(st) == 77) { v.cls = "sanitizer:" + classify_sanitizer(errfile); v.detail = "sanitizer report, see replay with --verbose"; }
    else if (WIFEXITED(st) && WEXITSTATUS(st) == 78) { v.cls = "hang"; v.detail = "a call did not return within the CPU-time watchdog"; }
    else if (WIFSIGNALED(st)) { v.cls = std::string("crash:") + strsignal(WTERMSIG(st)); for (auto &c : v.cls) if (c == ' ') c = '_'; v.detail = "process killed by signal"; }
    else { v.cls = "crash:exit" + std::to_string(WIFEXITED(st) ? WEXITSTATUS(st) : -1); v.harness_error = WIFEXITED(st) && WEXITSTATUS(st) == 2; }
    v.sig = p.cfg.world + "|" + v.cls + "|crash|";
    v.trace = "died";
    return v;
}

// ------------------------------------------------------------------ shrink
static bool same_failure(const Verdict &a, const Verdict &b) {
    if (!b.failed) return false;
    auto base = [](const std::string &c) { return c.substr(0, c.find('@')); };
    return base(a.cls) == base(b.cls) && a.oracle == b.oracle;
}
static size_t plan_size(const Plan &p) { size_t n = 0; for (auto &c : p.clients) n += c.size(); return n; }

static Plan shrink_plan(Plan p, Verdict &base, const std::string &scratch, int max_candidates, int &tried) {
    tried = 0;
    // a hanging candidate costs its whole CPU budget: minimise hangs with a quarter of the budget and fewer candidates
    bool hang = base.cls == "hang";
    if (hang) max_candidates = std::min(max_candidates, 80);
    auto attempt = [&](const Plan &cand) -> bool {
        if (tried >= max_candidates) return false;
        tried++;
        Verdict v = run_isolated(cand, scratch, false, hang ? std::max(1, cpu_budget(cand) / 4) : 0);
        if (same_failure(base, v)) { base = v; return true; }
        return false;
    };
    bool threads = p.mode == "threads";
    if (threads) { p.cfg.set("replay", 1); }
    bool progress = true;
    int rounds = 0;
    while (progress && tried < max_candidates && rounds++ < 6) {
        progress = false;
        // the target index must follow deletions (enum-derived plans)
        // 1. drop whole clients
        if (threads) for (size_t c = 0; c < p.clients.size() && p.clients.size() > 1;) {
            Plan q = p; q.clients.erase(q.clients.begin() + c);
            // remap decisions
            std::vector<int> ns; for (int d : q.sched) { int t = d >= 0 ? d : -(d + 1); if (t == (int)c) continue; if (t > (int)c) t--; ns.push_back(d >= 0 ? t : -(t + 1)); }
            q.sched = ns;
            if (attempt(q)) { p = q; p.sched = base.sched.empty() ? p.sched : base.sched; progress = true; } else c++;
        }
        // 2. ddmin over each client's ops
        for (size_t c = 0; c < p.clients.size(); c++) {
            size_t chunk = std::max<size_t>(1, p.clients[c].size() / 2);
            while (chunk >= 1 && tried < max_candidates) {
                bool any = false;
                for (size_t i = 0; i < p.clients[c].size() && tried < max_candidates;) {
                    size_t n = std::min(chunk, p.clients[c].size() - i);
                    Plan q = p;
                    long tgt = q.cfg.get("tgt", -2);
                    if (tgt >= (long)i && tgt < (long)(i + n) && n > 0) {
                        // never delete the faulted target itself unless it is a single-op chunk without fault
                        if (q.clients[c][tgt].fk != 0 || q.cfg.get("derived")) { i += n; continue; }
                    }
                    q.clients[c].erase(q.clients[c].begin() + i, q.clients[c].begin() + i + n);
                    if (tgt >= (long)(i + n)) q.cfg.set("tgt", tgt - (long)n);
                    if (attempt(q)) { p = q; if (threads && !base.sched.empty()) p.sched = base.sched; any = true; progress = true; }
                    else i += n;
                }
                if (chunk == 1) { if (!any) break; }
                else chunk /= 2;
            }
        }
        // 3. drop / weaken faults
        for (size_t c = 0; c < p.clients.size(); c++) for (size_t i = 0; i < p.clients[c].size(); i++) {
            Op &op = p.clients[c][i];
            if (op.fk && !(p.cfg.get("derived") && (long)i == p.cfg.get("tgt"))) { Plan q = p; q.clients[c][i].fk = 0; q.clients[c][i].fm = 0; if (attempt(q)) { p = q; progress = true; continue; } }
            if (op.fm == 2) { Plan q = p; q.clients[c][i].fm = 1; if (attempt(q)) { p = q; progress = true; } }
        }
        // 4. simplify the schedule: sequential, then drop decisions from the tail / individually
        if (threads && !p.sched.empty()) {
            { Plan q = p; q.sched.clear(); if (attempt(q)) { p = q; p.sched = base.sched; progress = true; } }
            for (size_t cut = p.sched.size() / 2; cut >= 1 && !p.sched.empty() && tried < max_candidates; cut /= 2) {
                Plan q = p; q.sched.resize(p.sched.size() > cut ? p.sched.size() - cut : 0);
                if (attempt(q)) { p = q; progress = true; }
                if (cut == 1) break;
            }
        }
        // 5. shrink arguments
        for (size_t c = 0; c < p.clients.size(); c++) for (size_t i = 0; i < p.clients[c].size() && tried < max_candidates; i++) {
            for (int f = 0; f < 3; f++) {
                Plan q = p; Op &op = q.clients[c][i];
                int *fld = f == 0 ? &op.c : f == 1 ? &op.b : &op.a;
                int target = f == 0 ? 1 : 0;
                if (*fld == target || *fld < 0) continue;
                *fld = target;
                if (attempt(q)) { p = q; progress = true; }
            }
        }
    }
    if (threads && !base.sched.empty()) p.sched = base.sched;
    return p;
}

// ------------------------------------------------------------------ commands
static int cmd_gen(const std::string &prop, const std::string &tier, uint64_t seed, uint64_t index, int case_k, int case_m) {
    Plan p = generate_plan(prop, tier, seed, index, g_variant);
    if ((p.mode == "enum" || p.mode == "lockbal") && case_k >= 0) {
        // the concrete derived case the worker was executing
        p.cfg.set("derived", 1);
        long tgt = p.cfg.get("tgt");
        if (case_k > 0) { if (tgt >= 0) { p.clients[0][tgt].fk = case_k; p.clients[0][tgt].fm = case_m; } else { p.cfg.set("ctor_fk", case_k); p.cfg.set("ctor_fm", case_m); } }
    }
    std::unique_ptr<World> w(make_world(p.cfg.world)); w->init(p.cfg);
    printf("%s\n", plan_to_json(p, *w).dump(1).c_str());
    return 0;
}

static int cmd_run(const std::string &prop, const std::string &tier, uint64_t seed, uint64_t from, uint64_t to, const std::string &scratch, double deadline_s, int recheck_every) {
    Stats total; uint64_t runs = 0, cases = 0, truncated = 0, rechecked = 0, fails = 0;
    std::unordered_set<uint64_t> nontrivial, scheds;
    std::map<std::string, uint64_t> worlds;
    std::vector<std::string> samples;
    double t0 = now_s();
    uint64_t i = from;
    for (; i < to; i++) {
        if (deadline_s > 0 && now_s() - t0 > deadline_s) break;
        g_cur_index = (long)i;
        printf("START %llu\n", (unsigned long long)i); fflush(stdout);
        Plan p = generate_plan(prop, tier, seed, i, g_variant);
        arm_watchdog(cpu_budget(p));
        RunOut out;
        execute_plan(p, out, false, scratch, [&](int k, int m) { printf("CASE %llu %d %d\n", (unsigned long long)i, k, m); fflush(stdout); });
        // not disarmed: a run that corrupted the heap of an un-instrumented build can make the harness's own bookkeeping
        // (malloc inside libstdc++) spin for ever; the next arm_watchdog() replaces this one
        arm_watchdog(cpu_budget(p) + 10);
        runs++; cases += out.cases;
        worlds[p.cfg.world + "/" + p.mode]++;
        total.merge(out.st);
        if (out.truncated) truncated++;
        if (out.nontrivial_hash) nontrivial.insert(out.nontrivial_hash);
        if (!out.sched.empty()) { uint64_t h = 1469598103934665603ULL; for (int d : out.sched) h = fnv1a(&d, sizeof d, h); scheds.insert(h); }
        for (auto &cv : out.collateral) total.add(("collateral_sig." + cv.sig(p.cfg.world)).c_str());
        if (samples.size() < 2 && (i - from) % 97 == 0) {
            std::unique_ptr<World> w(make_world(p.cfg.world)); w->init(p.cfg);
            Plan q = p; for (auto &c : q.clients) if (c.size() > 12) c.resize(12);
            samples.push_back(plan_to_json(q, *w).dump());
        }
        if (out.failed) {
            fails++;
            std::string path = scratch + "/fail-" + prop + "-" + std::to_string(i) + ".json";
            Plan fp = out.failing; fp.prop = prop; fp.variant = g_variant;
            save_plan(path, fp);
            printf("FAIL %llu file=%s class=%s oracle=%s sig=%s detail=%s\n", (unsigned long long)i, path.c_str(), out.v.cls.c_str(), out.v.oracle.c_str(),
                   out.v.sig(p.cfg.world).c_str(), one_line(out.v.detail).c_str());
            fflush(stdout);
            continue;
        }
        // silent determinism re-check
        if (recheck_every > 0 && (i % (uint64_t)recheck_every) == 0 && !out.truncated) {
            RunOut again;
            arm_watchdog(cpu_budget(p));
            execute_plan(p, again, false, scratch);
            arm_watchdog(cpu_budget(p) + 10);
            rechecked++;
            if (again.trace != out.trace || again.failed != out.failed) {
                printf("NONDET %llu first=%s second=%s\n", (unsigned long long)i, hex64(out.trace).c_str(), hex64(again.trace).c_str());
                fflush(stdout);
            }
        }
    }
    arm_watchdog(60);
    J j = J::obj();
    j.set("from", J::num((long long)from)); j.set("next", J::num((long long)i)); j.set("runs", J::num((long long)runs)); j.set("cases", J::num((long long)cases));
    j.set("truncated", J::num((long long)truncated)); j.set("rechecked", J::num((long long)rechecked)); j.set("fails", J::num((long long)fails));
    j.set("wall_s_x1000", J::num((long long)((now_s() - t0) * 1000)));
    if (sim_fopen_failed()) total.add("fault.fopen.fired", sim_fopen_failed());
    if (sim_write_failed()) total.add("fault.write.fired", sim_write_failed());
    J c = J::obj(); for (auto &kv : total.c) c.set(kv.first, J::num((long long)kv.second)); j.set("counters", c);
    J wj = J::obj(); for (auto &kv : worlds) wj.set(kv.first, J::num((long long)kv.second)); j.set("worlds", wj);
    J hs = J::arr(); for (auto h : nontrivial) hs.push(J::str(hex64(h))); j.set("nontrivial", hs);
    J ss = J::arr(); for (auto h : scheds) ss.push(J::str(hex64(h))); j.set("schedules", ss);
    J sm = J::arr(); for (auto &s : samples) { J sj; if (J::parse(s, sj)) sm.push(sj); } j.set("samples", sm);
    j.set("total_allocs", J::num((long long)sim_total_allocs())); j.set("total_faults", J::num((long long)sim_total_faults()));
    printf("STATS %s\n", j.dump().c_str());
    printf("DONE %llu\n", (unsigned long long)i);
    fflush(stdout);
    disarm_watchdog();
    return 0;
}

static int cmd_hashes(const std::string &prop, const std::string &tier, uint64_t seed, uint64_t from, uint64_t to, const std::string &scratch) {
    for (uint64_t i = from; i < to; i++) {
        Plan p = generate_plan(prop, tier, seed, i, g_variant);
        arm_watchdog(cpu_budget(p));
        RunOut out;
        execute_plan(p, out, false, scratch);
        disarm_watchdog();
        uint64_t sh = 1469598103934665603ULL; for (int d : out.sched) sh = fnv1a(&d, sizeof d, sh);
        printf("H %llu %s %s %d %llu %d\n", (unsigned long long)i, hex64(out.trace).c_str(), hex64(sh).c_str(), out.failed ? 1 : 0, (unsigned long long)out.cases, out.truncated ? 1 : 0);
    }
    return 0;
}

static void print_verdict(const Verdict &v) {
    if (v.failed) printf("REPLAY violated class=%s oracle=%s sig=%s trace=%s op=%d detail=%s\n", v.cls.c_str(), v.oracle.c_str(), v.sig.c_str(), v.trace.c_str(), v.opidx, one_line(v.detail).c_str());
    else printf("REPLAY held trace=%s%s\n", v.trace.c_str(), v.truncated ? " (truncated)" : "");
}

static int cmd_replay(const std::string &file, const std::string &scratch, bool verbose) {
    Plan p; if (!load_plan(file, p)) return 2;
    if (!p.variant.empty() && p.variant != g_variant) fprintf(stderr, "qsim: note: plan was recorded on variant %s, this binary is %s\n", p.variant.c_str(), g_variant.c_str());
    Verdict v = run_isolated(p, scratch, verbose);
    print_verdict(v);
    if (!p.exp_class.empty()) {
        bool same = v.failed && v.cls.substr(0, v.cls.find('@')) == p.exp_class.substr(0, p.exp_class.find('@')) && v.oracle == p.exp_oracle;
        printf("EXPECTED class=%s oracle=%s trace=%s : %s\n", p.exp_class.c_str(), p.exp_oracle.c_str(), p.exp_trace.c_str(), same ? "REPRODUCED" : "NOT-REPRODUCED");
    }
    return v.harness_error ? 2 : (v.failed ? 1 : 0);
}

static int cmd_shrink(const std::string &file, const std::string &outfile, const std::string &scratch, int maxc) {
    Plan p; if (!load_plan(file, p)) return 2;
    if (p.mode == "threads" && !p.sched.empty()) p.cfg.set("replay", 1);
    Verdict base = run_isolated(p, scratch, false);
    if (base.harness_error) { printf("SHRINK harness-error\n"); return 2; }
    if (!base.failed) { printf("SHRINK not-failing trace=%s\n", base.trace.c_str()); return 3; }
    if (p.mode == "threads" && p.sched.empty()) { p.sched = base.sched; p.cfg.set("replay", 1); }
    // determinism gate 1: same plan twice
    Verdict again = run_isolated(p, scratch, false);
    if (!same_failure(base, again) || base.trace != again.trace) { printf("SHRINK nondeterministic first=%s/%s second=%s/%s\n", base.cls.c_str(), base.trace.c_str(), again.cls.c_str(), again.trace.c_str()); return 2; }
    size_t before = plan_size(p);
    int tried = 0;
    Plan q = shrink_plan(p, base, scratch, maxc, tried);
    Verdict fin = run_isolated(q, scratch, false);
    if (!same_failure(base, fin)) { q = p; fin = again; }
    q.exp_class = fin.cls; q.exp_oracle = fin.oracle; q.exp_sig = fin.sig; q.exp_trace = fin.trace;
    save_plan(outfile, q);
    printf("SHRUNK ops_before=%zu ops_after=%zu candidates=%d class=%s oracle=%s sig=%s trace=%s detail=%s\n", before, plan_size(q), tried, fin.cls.c_str(), fin.oracle.c_str(), fin.sig.c_str(), fin.trace.c_str(), one_line(fin.detail).c_str());
    return 0;
}

int main(int argc, char **argv) {
    setvbuf(stdout, nullptr, _IOLBF, 0);
    std::map<std::string, std::string> a;
    std::vector<std::string> pos;
    for (int i = 1; i < argc; i++) {
        std::string s = argv[i];
        if (s.compare(0, 2, "--") == 0) { std::string k = s.substr(2); if (i + 1 < argc && strncmp(argv[i + 1], "--", 2) != 0) a[k] = argv[++i]; else a[k] = "1"; }
        else pos.push_back(s);
    }
    if (pos.empty()) { fprintf(stderr, "usage: qsim gen|run|replay|shrink|worlds ...\n"); return 2; }
    std::string cmd = pos[0];
    std::string scratch = a.count("scratch") ? a["scratch"] : std::string("/verif/build/scratch-") + std::to_string((long)getpid());
    mkdir(scratch.c_str(), 0755);
    uint64_t seed = a.count("seed") ? strtoull(a["seed"].c_str(), nullptr, 0) : 20260928ULL;
    std::string tier = a.count("tier") ? a["tier"] : "quick";
    int rc = 2;
    if (cmd == "worlds") { for (auto &n : world_names()) printf("%s\n", n.c_str()); rc = 0; }
    else if (cmd == "variant") { printf("%s\n", g_variant.c_str()); rc = 0; }
    else if (cmd == "gen") rc = cmd_gen(a["prop"], tier, seed, strtoull(a["index"].c_str(), nullptr, 0), a.count("casek") ? atoi(a["casek"].c_str()) : -1, a.count("casem") ? atoi(a["casem"].c_str()) : 1);
    else if (cmd == "run") rc = cmd_run(a["prop"], tier, seed, strtoull(a["from"].c_str(), nullptr, 0), strtoull(a["to"].c_str(), nullptr, 0), scratch,
                                        a.count("deadline") ? atof(a["deadline"].c_str()) : 0, a.count("recheck") ? atoi(a["recheck"].c_str()) : 50);
    else if (cmd == "hashes") rc = cmd_hashes(a["prop"], tier, seed, strtoull(a["from"].c_str(), nullptr, 0), strtoull(a["to"].c_str(), nullptr, 0), scratch);
    else if (cmd == "replay" && pos.size() > 1) rc = cmd_replay(pos[1], scratch, a.count("verbose"));
    else if (cmd == "shrink" && pos.size() > 1) rc = cmd_shrink(pos[1], a["out"], scratch, a.count("max") ? atoi(a["max"].c_str()) : 400);
    if (!a.count("scratch")) { std::string c = "rm -rf '" + scratch + "'"; int r = system(c.c_str()); (void)r; }
    return rc;
}
