#include "core.h"
World *make_treetbl();
World *make_hashtbl();
World *make_hasharr();
World *make_listtbl();
World *make_list();
World *make_vector();
World *make_qlog();

#ifndef QSIM_WORLDS
#define QSIM_WORLDS 0x7f
#endif
std::vector<std::string> world_names() {
    std::vector<std::string> v;
    if (QSIM_WORLDS & 1) v.push_back("treetbl");
    if (QSIM_WORLDS & 2) v.push_back("hashtbl");
    if (QSIM_WORLDS & 4) v.push_back("hasharr");
    if (QSIM_WORLDS & 8) v.push_back("listtbl");
    if (QSIM_WORLDS & 16) v.push_back("list");
    if (QSIM_WORLDS & 32) v.push_back("vector");
    if (QSIM_WORLDS & 64) v.push_back("qlog");
    return v;
}
World *make_world(const std::string &n) {
#if QSIM_WORLDS & 1
    if (n == "treetbl") return make_treetbl();
#endif
#if QSIM_WORLDS & 2
    if (n == "hashtbl") return make_hashtbl();
#endif
#if QSIM_WORLDS & 4
    if (n == "hasharr") return make_hasharr();
#endif
#if QSIM_WORLDS & 8
    if (n == "listtbl") return make_listtbl();
#endif
#if QSIM_WORLDS & 16
    if (n == "list") return make_list();
#endif
#if QSIM_WORLDS & 32
    if (n == "vector") return make_vector();
#endif
#if QSIM_WORLDS & 64
    if (n == "qlog") return make_qlog();
#endif
    return nullptr;
}
