// World: qlog as a lockable object (C14 only): write / writef / duplicate / flush, clock jumps across the rotation time,
// fopen failure on rotation, allocation failure in writef. No reference model beyond "the call returns and the lock is balanced".
#include "wutil.h"
#ifndef QSIM_STRUCT
#define QSIM_STRUCT 1      // 0: this adapter is built without reading any private struct field (API-level oracles only)
#endif
#include <pthread.h>
#include <unistd.h>
#include <dirent.h>
extern "C" {
#include "extensions/qlog.h"
}

enum { LG_WRITE, LG_WRITEF, LG_DUP, LG_FLUSH, LG_JUMP };
static const std::vector<std::string> LG_NAMES = {"write", "writef", "duplicate", "flush", "clockjump"};

struct LogModel : Model {
    Model *clone() const override { return new LogModel(*this); }
    Result apply(const Op &) override { return R_ok(); }
    std::string dump() const override { return "qlog"; }
};

struct LogWorld : World {
    qlog_t *lg = nullptr; FILE *dup = nullptr; std::string dir; int rot = 0; bool threadsafe = true;
    const char *name() const override { return "qlog"; }
    const std::vector<std::string> &opnames() const override { return LG_NAMES; }
    void gen_cfg(Rng &r, const std::string &, const std::string &, Cfg &c) override {
        c.world = "qlog"; c.set("ts", 1); c.set("rot", r.pick(std::vector<int>{0, 1, 10, 60})); c.set("flushopt", r.below(2)); c.set("nops", r.range(3, 30));
        c.set("coarse", r.below(2));      // 1: the file name pattern changes more rarely than the rotation interval (rotation finds the same name)
        c.set("mt", 0);
    }
    Op gen_op(Rng &r, const std::string &, const std::string &, GenState &) override {
        Op op; op.k = wpick(r, {{35, LG_WRITE}, {30, LG_WRITEF}, {10, LG_DUP}, {10, LG_FLUSH}, {15, LG_JUMP}});
        op.a = (int)r.below(200); op.b = (int)r.below(1 << 20); op.c = r.range(1, 200); op.d = (int)r.below(4);
        return op;
    }
    bool is_mutation(const Op &op) const override { return op.k == LG_WRITE || op.k == LG_WRITEF; }
    void init(const Cfg &c) override { cfg = c; rot = (int)c.get("rot"); }
    Model *new_model() override { return new LogModel(); }
    bool sut_create(Ctx &x) override {
        dir = x.scratch + "/qlog";
        mkdir_p();
        std::string fmt = dir + (cfg.get("coarse") ? "/log-%Y.txt" : "/log-%Y%m%d-%H%M%S.txt");
        { InSut s; lg = qlog(fmt.c_str(), 0644, rot, QLOG_OPT_THREADSAFE | (cfg.get("flushopt") ? QLOG_OPT_FLUSH : 0)); }
        dup = fopen("/dev/null", "w");
        x.st.add(rot ? "cfg.rotating" : "cfg.no_rotation");
        return lg != nullptr;
    }
    void mkdir_p() { std::string c = "mkdir -p '" + dir + "'"; int r = system(c.c_str()); (void)r; }
    void cleanup() {
        if (dup) { fclose(dup); dup = nullptr; }
        DIR *d = opendir(dir.c_str());
        if (d) { struct dirent *e; while ((e = readdir(d))) if (e->d_name[0] != '.') unlink((dir + "/" + e->d_name).c_str()); closedir(d); }
    }
    void sut_destroy(Ctx &) override { if (lg) { InSut s; lg->free(lg); } lg = nullptr; cleanup(); }
    void sut_abandon() override { lg = nullptr; dup = nullptr; }
    void *sut_mutex() override { return nullptr; }
#if QSIM_STRUCT
    void sut_force_unlock() override { if (lg && lg->qmutex) pthread_mutex_unlock((pthread_mutex_t *)lg->qmutex); }
#endif
    void sut_probe(Ctx &) override { InSut s; lg->flush(lg); }
    Result sut_apply(const Op &op, Ctx &x) override {
        switch (op.k) {
        case LG_WRITE: { Bytes v = gen_value(op.b, op.c, 1); CallerBuf vb(v); bool ok; { InSut s; ok = lg->write(lg, (const char *)vb.p); } return ok ? R_ok() : R_fail(); }
        case LG_WRITEF: { Bytes v = gen_value(op.b, op.c, 1); CallerBuf vb(v); bool ok; { InSut s; ok = lg->writef(lg, "%d:%s", op.a, (const char *)vb.p); } return ok ? R_ok() : R_fail(); }
        case LG_DUP: {
            // one duplicate stream per log object, opened once and closed only after the log is freed: client threads
            // switch duplication on and off but never close a stream the log may still be writing to
            if (!dup) dup = fopen("/dev/null", "w");
            { InSut s; lg->duplicate(lg, (op.d & 1) ? dup : nullptr, (op.d & 2) != 0); }
            return R_ok();
        }
        case LG_FLUSH: { InSut s; lg->flush(lg); return R_ok(); }
        case LG_JUMP: {
            sim_clock_jump(op.a);
            if (op.d & 1) { sim_fopen_fail(1); x.st.add("fault.fopen.planned"); }
            x.st.add("probe.clock_jump");
            return R_ok();
        }
        }
        return R_ok();
    }
    std::string sut_dump(Ctx &) override { return "qlog"; }
};
World *make_qlog() { return new LogWorld(); }
