// World: qlisttbl (C08; container for C11-C15)
#include "wutil.h"
#ifndef QSIM_STRUCT
#define QSIM_STRUCT 1      // 0: this adapter is built without reading any private struct field (API-level oracles only)
#endif
#include <algorithm>
#include <inttypes.h>
#include <strings.h>
#include <unistd.h>
extern "C" {
#include "containers/qlisttbl.h"
}

enum { LT_PUT, LT_GET, LT_GETMULTI, LT_REMOVE, LT_WALK, LT_WALKREMOVE, LT_SORT, LT_SIZE, LT_CLEAR, LT_SAVELOAD, LT_LOCKEDWALK, LT_DEBUG, LT_LOADFILE, LT_SAVEFULL };
static const std::vector<std::string> LT_NAMES = {"put", "get", "getmulti", "remove", "walk", "walkremove", "sort", "size", "clear", "saveload", "lockedwalk", "debug", "loadfile", "save_disk_full"};
enum { NULLKEY = 0x100, NULLDATA = 0x200, SELFREF = 0x400 };
enum { O_UNIQUE = 1, O_CI = 2, O_TOP = 4, O_FWD = 8 };

struct LtWorld;
typedef std::pair<Bytes, Bytes> Ent;
struct LtModel : Model {
    const LtWorld *w; std::vector<Ent> v;
    explicit LtModel(const LtWorld *w_) : w(w_) {}
    Model *clone() const override { return new LtModel(*this); }
    Result apply(const Op &op) override;
    std::string dump() const override { Bytes o = "n=" + num((long long)v.size()) + ";"; for (auto &e : v) { enc(o, e.first); enc(o, e.second); } return o; }
    bool match(const Bytes &a, const Bytes &b) const;
    std::vector<size_t> lookup_order(const Bytes *name) const;
};

static bool is_cstr(const Bytes &b) { return !b.empty() && b.find('\0') == b.size() - 1; }
static bool is_plain(const Bytes &b) { if (!is_cstr(b) || b.size() < 2) return false; for (size_t i = 0; i + 1 < b.size(); i++) if ((unsigned char)b[i] < 0x21 || (unsigned char)b[i] > 0x7e) return false; return true; }

struct LtWorld : World {
    std::vector<Bytes> keys; int opts = 0; bool threadsafe = false, mt = false;
    qlisttbl_t *t = nullptr;
    std::string scratch;
    const char *name() const override { return "listtbl"; }
    const std::vector<std::string> &opnames() const override { return LT_NAMES; }

    void gen_cfg(Rng &r, const std::string &prop, const std::string &mode, Cfg &c) override {
        c.world = "listtbl";
        bool mtm = mode == "threads";
        c.set("U", mtm ? r.pick(std::vector<int>{2, 3}) : r.pick(std::vector<int>{2, 3, 4, 6, 9}));
        c.set("opts", r.below(16));
        c.set("fullcoll", r.chance(1, 4) ? 1 : 0);
        c.set("useed", (long)r.below(1000000));
        c.set("ts", (mtm || mode == "lockbal") ? 1 : (r.chance(1, 5) ? 1 : 0));
        c.set("mt", mtm ? 1 : 0);
        c.set("nops", r.range(5, r.chance(1, 4) ? 200 : 50));
        (void)prop;
    }
    Op gen_op(Rng &r, const std::string &prop, const std::string &mode, GenState &) override {
        Op op; bool mtm = mode == "threads"; bool c14 = prop == "C14";
        int Uc = (int)cfg.get("U");
        if (mtm) op.k = wpick(r, {{40, LT_PUT}, {20, LT_GET}, {8, LT_GETMULTI}, {20, LT_REMOVE}, {4, LT_CLEAR}, {8, LT_LOCKEDWALK}});
        else op.k = wpick(r, {{40, LT_PUT}, {12, LT_GET}, {8, LT_GETMULTI}, {10, LT_REMOVE}, {8, LT_WALK}, {6, LT_WALKREMOVE}, {4, LT_SORT}, {4, LT_SIZE}, {1, LT_CLEAR},
                              {(prop == "C15" || prop == "C14") ? 1 : 5, LT_SAVELOAD}, {c14 ? 3 : 0, LT_DEBUG}, {c14 ? 6 : 0, LT_LOCKEDWALK},
                              {prop == "C11" ? 3 : 0, LT_LOADFILE}, {c14 ? 3 : 0, LT_SAVEFULL}});
        op.a = (int)r.below((uint32_t)Uc);
        switch (op.k) {
        case LT_PUT: {
            int api = (int)r.below(4);
            int klass = (api == 1 || api == 2 || mtm) ? (r.chance(1, 2) ? 1 : 5) : wpick(r, {{30, 1}, {30, 5}, {10, 0}, {10, 3}, {10, 4}, {10, 2}});
            op.b = (int)r.below(1 << 20); op.c = mtm ? r.range(2, 10) : std::max(2, gen_vlen(r, 80)); op.d = api | (klass << 2);
            if (api == 3) op.b = (int)r.next();
            if (api == 2 && !mtm && r.chance(1, 4)) op.c = gen_fmt_len(r);
            break;
        }
        case LT_GET: op.d = (mtm ? 1 : (int)r.below(2)) | ((int)r.below(3) << 1); break;
        case LT_GETMULTI: op.d = mtm ? 1 : (int)r.below(2); break;
        case LT_WALK: op.d = (int)r.below(4); break;
        case LT_LOCKEDWALK: op.d = (int)r.below(2); break;
        case LT_WALKREMOVE: op.b = (int)r.below(1 << 16); op.d = ((int)r.below(2) << 1) | (int)r.below(2); if (r.chance(1, 4)) op.b = 0xffff; break;
        case LT_SAVELOAD: op.d = (int)r.below(2); break;
        case LT_LOADFILE: op.b = (int)r.below(1 << 20); op.c = r.range(0, 5); op.d = (int)r.below(8); break;
        default: break;
        }
        if (!mtm && op.k == LT_PUT && r.chance(1, 25)) { op.d = SELFREF; return op; }
        if (c14 && r.chance(1, 8) && (op.k == LT_PUT || op.k == LT_GET || op.k == LT_REMOVE)) op.d |= r.chance(1, 2) ? NULLKEY : (op.k == LT_PUT ? NULLDATA : NULLKEY);
        return op;
    }
    bool result_is_ambiguous(const Op &op) const override { return op.k == LT_SORT || op.k == LT_CLEAR || op.k == LT_REMOVE    /* void, void, a count */; }
    bool is_mutation(const Op &op) const override { return op.k == LT_LOADFILE || op.k == LT_PUT || op.k == LT_REMOVE || op.k == LT_WALKREMOVE || op.k == LT_SORT || op.k == LT_CLEAR; }

    void init(const Cfg &c) override {
        cfg = c; opts = (int)c.get("opts"); threadsafe = c.get("ts") != 0; mt = c.get("mt") != 0;
        int U = (int)c.get("U");
        Rng r((uint64_t)c.get("useed") * 31337 + 3);
        static const char *bases[] = {"key", "ab", "x", "name1", "zz"};
        std::set<Bytes> seen; keys.clear();
        int guard = 0;
        if (c.get("fullcoll") && U >= 2 && !collision_pairs().empty()) {
            // two different keys whose full 32-bit hashes are equal (the table caches a hash per entry)
            auto &pr = collision_pairs()[r.below((uint32_t)collision_pairs().size())];
            keys.push_back(pr.first); keys.push_back(pr.second); seen.insert(pr.first); seen.insert(pr.second);
        }
        while ((int)keys.size() < U && guard++ < 1000) {
            Bytes k = bases[r.below(guard > 200 ? 5 : 2 + (uint32_t)(U > 4))];
            for (auto &ch : k) if (r.chance(1, 2)) ch = (char)toupper(ch);
            if (seen.insert(k).second) keys.push_back(k);
        }
        while ((int)keys.size() < U) keys.push_back("k" + num((long long)keys.size()));
    }
    const Bytes &key(int a) const { int n = (int)keys.size(); return keys[((a % n) + n) % n]; }
    Bytes value(const Op &op) const {
        int api = op.d & 3;
        if (api == 3) { char b[32]; snprintf(b, sizeof b, "%" PRId64, int_value(op.b, op.c)); return Bytes(b) + Bytes(1, '\0'); }
        return gen_value(op.b, op.c, (op.d >> 2) & 7);
    }
    Model *new_model() override { return new LtModel(this); }
    int libopts() const {
        return (threadsafe ? QLISTTBL_THREADSAFE : 0) | ((opts & O_UNIQUE) ? QLISTTBL_UNIQUE : 0) | ((opts & O_CI) ? QLISTTBL_CASEINSENSITIVE : 0) |
               ((opts & O_TOP) ? QLISTTBL_INSERTTOP : 0) | ((opts & O_FWD) ? QLISTTBL_LOOKUPFORWARD : 0);
    }
    bool sut_create(Ctx &x) override {
        scratch = x.scratch; pending = nullptr;
        { InSut s; t = qlisttbl(libopts()); }
        char b[32]; snprintf(b, sizeof b, "cfg.opts_%d", opts); x.st.add(b);
        return t != nullptr;
    }
    void sut_destroy(Ctx &x) override {
        qlisttbl_data_t *keep = pending; std::vector<Bytes> ke = pending_expect;
        if (t) { InSut s; t->free(t); } t = nullptr;
        if (keep) {
            // the result set must survive the table
            pending = nullptr;
            bool bad = false;
            for (size_t i = 0; i < ke.size(); i++) if (memcmp(keep[i].data, ke[i].data(), ke[i].size()) != 0) bad = true;
            { InSut s; qlisttbl_freemulti(keep); }
            if (bad) x.fail("alias", "alias", "a value copied out by getmulti(newmem) changed when the table was freed");
        }
    }
    void sut_abandon() override { t = nullptr; pending = nullptr; }
#if QSIM_STRUCT
    void *sut_mutex() override { return t ? t->qmutex : nullptr; }
    bool sut_sees_mutex() override { return true; }
#endif
    bool sut_user_lock() override { InSutLock s; t->lock(t); return true; }
    void sut_force_unlock() override { InSutLock s; t->unlock(t); }
    void sut_probe(Ctx &) override { InSut s; t->get(t, "probe-key", nullptr, false); }

    // entries of a hand-written file for LT_LOADFILE: (name, value) with printable values; the same function feeds the model
    std::vector<Ent> file_entries(const Op &op) const {
        std::vector<Ent> es; Rng r((uint64_t)op.b * 977 + 5);
        for (int i = 0; i < op.c; i++) { Bytes v = gen_value((int)r.below(1 << 20), r.range(2, 12), 1); es.push_back(Ent(key((int)r.below(64)), v)); }
        return es;
    }
    Bytes file_text(const Op &op) const {
        Bytes t = (op.d & 2) ? "# written by hand\n\n" : "";
        auto es = file_entries(op);
        for (size_t i = 0; i < es.size(); i++) {
            bool pad = (op.d & 4) != 0;
            t += (pad ? "  " : "") + es[i].first + (pad ? " = " : "=") + Bytes(es[i].second.c_str()) + (pad ? "\t" : "");
            if (i + 1 < es.size() || !(op.d & 1)) t += "\n";
            if ((op.d & 2) && i == 0) t += "   \n# comment\n";
        }
        return t;
    }
    // entries top-to-bottom through the API only (full scan in lookup direction, reversed when the table looks up backwards)
    std::vector<Ent> scan(qlisttbl_t *tb) {
        size_t n; { InSut s; n = tb->size(tb); }
        std::vector<Ent> es;
        qlisttbl_obj_t o; memset(&o, 0, sizeof o);
        for (;;) {
            bool more; { InSut s; more = tb->getnext(tb, &o, nullptr, false); }
            if (!more) break;
            es.push_back({Bytes(o.name), Bytes((const char *)o.data, o.size)});
            if (es.size() > n + 8) break;
        }
        if (!(opts & O_FWD)) std::reverse(es.begin(), es.end());
        return es;
    }
    Bytes entries_of(qlisttbl_t *tb) { Bytes o; for (auto &e : scan(tb)) { enc(o, e.first); enc(o, e.second); } return o; }

    qlisttbl_data_t *pending = nullptr; std::vector<Bytes> pending_expect; int pending_age = 0;
    void check_pending(Ctx &x, bool force) {
        if (!pending) return;
        if (!force && ++pending_age < 3) return;
        for (size_t i = 0; i < pending_expect.size(); i++)
            if (memcmp(pending[i].data, pending_expect[i].data(), pending_expect[i].size()) != 0) {
                pending = nullptr;
                x.fail("alias", "alias", "a value copied out by getmulti(newmem) changed after later operations on the table");
            }
        { InSut s; t ? t->freemulti(pending) : qlisttbl_freemulti(pending); }
        pending = nullptr;
    }
    Result sut_apply(const Op &op, Ctx &x) override {
        Result r = sut_apply2(op, x);
        if (pending && op.k != LT_GETMULTI) check_pending(x, false);
        return r;
    }
    Result sut_apply2(const Op &op, Ctx &x) {
        Bytes k = key(op.a), kz = k + Bytes(1, '\0');
        switch (op.k) {
        case LT_PUT: {
            Bytes v = value(op); int api = op.d & 3; bool ok;
            if (op.d & SELFREF) {
                CallerBuf kb2(kz); size_t n = 0; void *p;
                { InSut s; p = t->get(t, (const char *)kb2.p, &n, false); }
                if (!p || n == 0) return R_ok("skip");
                size_t off = (size_t)op.c % n;
                { InSut s; ok = t->put(t, (const char *)kb2.p, (char *)p + off, n - off); }
                x.st.add("probe.put_from_own_value");
                return ok ? R_ok() : R_fail();
            }
            CallerBuf kb(kz), vb(v);
            const char *kp = (op.d & NULLKEY) ? nullptr : (const char *)kb.p;
            const void *vp = (op.d & NULLDATA) ? nullptr : vb.p;
            InSut s;
            if (api == 0) ok = t->put(t, kp, vp, vb.n);
            else if (api == 1) ok = t->putstr(t, kp, (const char *)vp);
            else if (api == 2) ok = vp ? t->putstrf(t, kp, "%s", (const char *)vp) : t->putstr(t, kp, nullptr);
            else ok = t->putint(t, kp, int_value(op.b, op.c));
            return ok ? R_ok() : R_fail();
        }
        case LT_GET: {
            bool newmem = op.d & 1; int api = (op.d >> 1) & 3;
            CallerBuf kb(kz);
            const char *kp = (op.d & NULLKEY) ? nullptr : (const char *)kb.p;
            size_t sz = (size_t)-1; void *p; size_t ssz = 0; void *sp; bool is_str;
            if (mt) { sp = (void *)1; is_str = true; }
            else {
                { InSut s; sp = kp ? t->get(t, kp, &ssz, false) : nullptr; }
                is_str = sp && ssz > 0 && memchr(sp, 0, ssz) == (char *)sp + ssz - 1;
            }
            if (api == 2 && kp && (is_str || !sp)) { int64_t n; { InSut s; n = t->getint(t, kp); } if (n == 0 && sim_fault_fired() > 0) return R_fail("int:0"); return R_ok("int:" + num((long long)n)); }
            if (api == 1 && is_str) { { InSut s; p = t->getstr(t, kp, newmem); } sz = p ? strlen((char *)p) + 1 : 0; }
            else { InSut s; p = t->get(t, kp, &sz, newmem); }
            if (!p) return R_fail();
            Bytes got((const char *)p, sz);
            if (newmem) x.hold(p, got, "listtbl.get(newmem)");
            return R_ok(encs(got));
        }
        case LT_GETMULTI: {
            bool newmem = op.d & 1; size_t cnt = (size_t)-1; qlisttbl_data_t *objs;
            CallerBuf kb(kz);
            { InSut s; objs = t->getmulti(t, (const char *)kb.p, newmem, &cnt); }
            if (!objs) return R_fail(num((long long)cnt));    // "numobjs: the number of objects returned is stored"
            Bytes out = num((long long)cnt) + ":";
            for (size_t i = 0; i < cnt; i++) enc(out, Bytes((const char *)objs[i].data, objs[i].size));
            if (objs[cnt].data != nullptr) out += "!no-end-mark";     // the documented loop ends at data == NULL
            if (newmem && x.o_alias && !mt && !pending) {
                // keep the copied result set across the next operations: it must stay intact until the client releases it
                pending = objs; pending_expect.clear(); pending_age = 0;
                for (size_t i = 0; i < cnt; i++) pending_expect.push_back(Bytes((const char *)objs[i].data, objs[i].size));
                return R_ok(out);
            }
            { InSut s; t->freemulti(objs); }
            return R_ok(out);
        }
        case LT_REMOVE: {
            CallerBuf kb(kz); size_t n;
            { InSut s; n = t->remove(t, (op.d & NULLKEY) ? nullptr : (const char *)kb.p); }
            return R_ok(num((long long)n));
        }
        case LT_WALK: case LT_LOCKEDWALK: case LT_WALKREMOVE: {
            bool newmem = (op.d & 1); bool filtered = (op.d >> 1) & 1;      // walkremove with newmem: removeobj() on a copying cursor, as the documentation shows
            if (op.k == LT_LOCKEDWALK) filtered = false;
            CallerBuf kb(kz);
            const char *kp = filtered ? (const char *)kb.p : nullptr;
            if (op.k == LT_LOCKEDWALK) { InSutLock s; t->lock(t); }
            // a walk that removes entries is a compound operation: a step failing half way would leave the earlier removals in
            // place, which is not a defect - it is never a fault target
            struct MaybeBk { bool on; MaybeBk(bool o) : on(o) { if (on) sim_fault_suspend(true); } ~MaybeBk() { if (on) sim_fault_suspend(false); } } mbk(op.k == LT_WALKREMOVE);
            qlisttbl_obj_t o; memset(&o, 0, sizeof o);
            Bytes out; size_t cnt = 0, guard = t->size(t) * 2 + 8; int removed = 0; bool failed = false; int fired_seen = sim_fault_fired(), retries = 0;
            for (;;) {
                void *n0 = o.name, *d0 = o.data;
                bool more; { InSut s; more = t->getnext(t, &o, kp, newmem); }
                if (!more && sim_fault_fired() > fired_seen) { check_cursor_ptr(x, "name", n0, o.name); check_cursor_ptr(x, "data", d0, o.data); }
                if (!more && newmem && sim_fault_fired() > fired_seen && retries < 1) { fired_seen = sim_fault_fired(); retries++; failed = true; x.st.add("probe.walk_step_retried_after_enomem"); continue; }   // a step reported failure: so does the walk (the retry only probes that the cursor is still safe to use)
                if (!more) { if (sim_fault_fired() > fired_seen) failed = true; break; }
                Bytes nm(o.name), v((const char *)o.data, o.size);
                enc(out, nm); enc(out, v);
                if (newmem) { x.hold(o.name, nm + Bytes(1, '\0'), "listtbl.getnext(newmem).name"); x.hold(o.data, v, "listtbl.getnext(newmem).data"); }
                if (op.k == LT_WALKREMOVE && ((op.b >> (cnt % 16)) & 1)) {
                    bool first = o.prev == nullptr, last = o.next == nullptr;
                    bool ok; { InSut s; ok = t->removeobj(t, &o); }
                    if (ok) { removed++; x.st.add(first && last ? "probe.walkremove_only" : first ? "probe.walkremove_first" : last ? "probe.walkremove_last" : "probe.walkremove_middle"); }
                    else out += "!removeobj-failed";
                }
                if (++cnt > guard) { if (op.k == LT_LOCKEDWALK) { InSutLock s; t->unlock(t); } x.fail("walk-mismatch", "result", "walk does not end"); }
            }
            if (op.k == LT_LOCKEDWALK) { InSutLock s; t->unlock(t); }
            if (op.k == LT_WALKREMOVE) out += "|removed=" + num(removed);
            return failed ? R_fail(out) : R_ok(out + "$");
        }
        case LT_SORT: { InSut s; t->sort(t); return R_ok(); }
        case LT_SIZE: { size_t n; { InSut s; n = t->size(t); } return R_ok(num((long long)n)); }
        case LT_CLEAR: { InSut s; t->clear(t); return R_ok(); }
        case LT_SAVELOAD: {
            bool encode = op.d & 1;
            // only tables of string values can be saved (the statement's premise); plain text additionally needs printable values
            bool okv = true;
            if (!mt) { Bookkeeping bk; for (auto &e : scan(t)) if (!(encode ? is_cstr(e.second) : is_plain(e.second))) okv = false; }
            if (!okv) return R_ok("skip");
            std::string path = scratch + "/lt-save.txt";
            // save/load are not among the operations C15 quantifies over: never a fault target
            struct Susp { Susp() { sim_fault_suspend(true); } ~Susp() { sim_fault_suspend(false); } } susp;
            bool sok; { InSut s; sok = t->save(t, path.c_str(), '=', encode); }
            if (!sok) return R_fail("save");
            qlisttbl_t *t2; { InSut s; t2 = qlisttbl(libopts() & ~QLISTTBL_THREADSAFE); }
            if (!t2) { unlink(path.c_str()); return R_fail("ctor"); }
            ssize_t n; { InSut s; n = t2->load(t2, path.c_str(), '=', encode); }
            Bytes out = "cnt=" + num((long long)n) + ";" + entries_of(t2);
            { InSut s; t2->free(t2); }
            unlink(path.c_str());
            x.st.add("probe.saveload");
            if (sim_fault_fired() > 0 && n < 0) return R_fail(out);
            return R_ok(out);
        }
        case LT_LOADFILE: {
            // a hand-written file: comments, blank lines, blanks around names and values, optionally no newline after the last line
            std::string path = scratch + "/lt-hand.txt";
            Bytes text = file_text(op);
            { FILE *f = fopen(path.c_str(), "w"); if (f) { fwrite(text.data(), 1, text.size(), f); fclose(f); } }
            Bookkeeping bk;     // load is not an operation C15 quantifies over
            ssize_t n; { InSut s; n = t->load(t, path.c_str(), '=', false); }
            unlink(path.c_str());
            x.st.add((op.d & 1) ? "probe.loaded_file_without_final_newline" : "probe.loaded_hand_written_file");
            return R_ok("cnt=" + num((long long)n));
        }
        case LT_SAVEFULL: {
            // the disk fills up while saving: every write() of this save fails with ENOSPC
            std::string path = scratch + "/lt-full.txt";
            Bookkeeping bk;
            sim_write_fail(1000000);
            { InSut s; t->save(t, path.c_str(), '=', true); }
            sim_write_fail(0);
            unlink(path.c_str());
            x.st.add("fault.write.planned");
            return R_ok();
        }
        case LT_DEBUG: {
            FILE *f = fopen("/dev/null", "w"); bool ok;
            { InSut s; ok = t->debug(t, f); }
            fclose(f);
            return ok ? R_ok() : R_fail();
        }
        }
        return R_ok();
    }
    std::string sut_dump(Ctx &) override {
        // full scan in lookup direction through the API, reported top-to-bottom
        size_t n; { InSut s; n = t->size(t); }
        std::vector<Ent> es = scan(t);
        Bytes out = "n=" + num((long long)n) + ";";
        for (auto &e : es) { enc(out, e.first); enc(out, e.second); }
        return out;
    }
    void sut_struct(Ctx &x) override {
#if !QSIM_STRUCT
        (void)x; return;
#else
        if (!t) return;
        size_t cnt = 0; qlisttbl_obj_t *prev = nullptr;
        for (qlisttbl_obj_t *o = t->first; o; prev = o, o = o->next) {
            if (o->prev != prev) x.fail("structure", "struct", "back link of entry " + num((long long)cnt) + " is wrong");
            if (++cnt > t->num + 4) x.fail("structure", "struct", "forward chain longer than size() (cycle)");
        }
        if (t->last != prev) x.fail("structure", "struct", "last pointer does not name the final entry");
        if (cnt != t->num) x.fail("structure", "struct", "chain has " + num((long long)cnt) + " entries, size() says " + num((long long)t->num));
        x.st.add("struct.checks");
#endif
    }
    std::string render(const Op &op) const override {
        char b[220];
        switch (op.k) {
        case LT_PUT: snprintf(b, sizeof b, "put '%s' value(seed %d,len %d,class %d) api%d%s%s [opts %d]", key(op.a).c_str(), op.b, op.c, (op.d >> 2) & 7, op.d & 3, (op.d & NULLKEY) ? " NULL-key" : "", (op.d & NULLDATA) ? " NULL-data" : "", opts); break;
        case LT_GET: snprintf(b, sizeof b, "get '%s' newmem=%d api%d%s [opts %d]", key(op.a).c_str(), op.d & 1, (op.d >> 1) & 3, (op.d & NULLKEY) ? " NULL-key" : "", opts); break;
        case LT_GETMULTI: snprintf(b, sizeof b, "getmulti '%s' newmem=%d [opts %d]", key(op.a).c_str(), op.d & 1, opts); break;
        case LT_REMOVE: snprintf(b, sizeof b, "remove '%s' [opts %d]", key(op.a).c_str(), opts); break;
        case LT_WALK: snprintf(b, sizeof b, "walk %s newmem=%d [opts %d]", (op.d & 2) ? ("named '" + key(op.a) + "'").c_str() : "all", op.d & 1, opts); break;
        case LT_WALKREMOVE: snprintf(b, sizeof b, "walk %s removing by mask %#x [opts %d]", (op.d & 2) ? ("named '" + key(op.a) + "'").c_str() : "all", op.b, opts); break;
        case LT_SAVELOAD: snprintf(b, sizeof b, "save+load encode=%d [opts %d]", op.d & 1, opts); break;
        default: snprintf(b, sizeof b, "%s [opts %d]", LT_NAMES[op.k].c_str(), opts); break;
        }
        return b;
    }
};

bool LtModel::match(const Bytes &a, const Bytes &b) const { return (w->opts & O_CI) ? strcasecmp(a.c_str(), b.c_str()) == 0 : a == b; }
std::vector<size_t> LtModel::lookup_order(const Bytes *name) const {
    std::vector<size_t> idx;
    for (size_t i = 0; i < v.size(); i++) if (!name || match(v[i].first, *name)) idx.push_back(i);
    if (!(w->opts & O_FWD)) std::reverse(idx.begin(), idx.end());
    return idx;
}
Result LtModel::apply(const Op &op) {
    Bytes k = w->key(op.a);
    switch (op.k) {
    case LT_PUT: {
        if ((op.d & NULLKEY) || ((op.d & NULLDATA) && (op.d & 3) != 3)) return R_fail();     // putint takes no data pointer
        Bytes val = w->value(op);
        if (op.d & SELFREF) { auto idx = lookup_order(&k); if (idx.empty()) return R_ok("skip"); const Bytes &cur = v[idx[0]].second; val = cur.substr((size_t)op.c % cur.size()); }
        else
        if ((op.d & 3) == 1 || (op.d & 3) == 2) val = Bytes(val.c_str()) + Bytes(1, '\0');
        if (w->opts & O_UNIQUE) v.erase(std::remove_if(v.begin(), v.end(), [&](const Ent &e) { return match(e.first, k); }), v.end());
        if (w->opts & O_TOP) v.insert(v.begin(), Ent(k, val)); else v.push_back(Ent(k, val));
        return R_ok();
    }
    case LT_GET: {
        if (op.d & NULLKEY) return R_fail();
        auto idx = lookup_order(&k); int api = (op.d >> 1) & 3;
        bool is_str = !idx.empty() && is_cstr(v[idx[0]].second);
        if (api == 2 && (is_str || idx.empty())) return R_ok("int:" + num(idx.empty() ? 0 : atoll(v[idx[0]].second.c_str())));
        if (idx.empty()) return R_fail();
        return R_ok(encs(v[idx[0]].second));
    }
    case LT_GETMULTI: {
        auto idx = lookup_order(&k);
        if (idx.empty()) return R_fail("0");
        Bytes out = num((long long)idx.size()) + ":";
        for (size_t i : idx) enc(out, v[i].second);
        return R_ok(out);
    }
    case LT_REMOVE: {
        if (op.d & NULLKEY) return R_ok("0");
        size_t before = v.size();
        v.erase(std::remove_if(v.begin(), v.end(), [&](const Ent &e) { return match(e.first, k); }), v.end());
        return R_ok(num((long long)(before - v.size())));
    }
    case LT_WALK: case LT_LOCKEDWALK: case LT_WALKREMOVE: {
        bool filtered = (op.d >> 1) & 1; if (op.k == LT_LOCKEDWALK) filtered = false;
        auto idx = lookup_order(filtered ? &k : nullptr);
        Bytes out; std::vector<size_t> kill; size_t cnt = 0;
        for (size_t i : idx) {
            enc(out, v[i].first); enc(out, v[i].second);
            if (op.k == LT_WALKREMOVE && ((op.b >> (cnt % 16)) & 1)) kill.push_back(i);
            cnt++;
        }
        if (op.k == LT_WALKREMOVE) {
            std::sort(kill.begin(), kill.end());
            for (size_t j = kill.size(); j-- > 0;) v.erase(v.begin() + (long)kill[j]);
            out += "|removed=" + num((long long)kill.size());
        }
        return R_ok(out + "$");
    }
    case LT_SORT: {
        bool ci = w->opts & O_CI;
        std::stable_sort(v.begin(), v.end(), [&](const Ent &a, const Ent &b) { return (ci ? strcasecmp(a.first.c_str(), b.first.c_str()) : strcmp(a.first.c_str(), b.first.c_str())) < 0; });
        return R_ok();
    }
    case LT_SIZE: return R_ok(num((long long)v.size()));
    case LT_CLEAR: v.clear(); return R_ok();
    case LT_SAVELOAD: {
        bool encode = op.d & 1;
        for (auto &e : v) if (!(encode ? is_cstr(e.second) : is_plain(e.second))) return R_ok("skip");
        Bytes out = "cnt=" + num((long long)v.size()) + ";";
        for (auto &e : v) { enc(out, e.first); enc(out, e.second); }
        return R_ok(out);
    }
    case LT_LOADFILE: {
        auto es = w->file_entries(op);
        for (auto &e : es) {
            if (w->opts & O_UNIQUE) v.erase(std::remove_if(v.begin(), v.end(), [&](const Ent &o) { return match(o.first, e.first); }), v.end());
            v.push_back(e);      // load always appends at the bottom
        }
        return R_ok("cnt=" + num((long long)es.size()));
    }
    case LT_SAVEFULL: return R_ok();
    case LT_DEBUG: return R_ok();
    }
    return R_ok();
}

World *make_listtbl() { return new LtWorld(); }
