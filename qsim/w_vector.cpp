// World: qvector (C10; container for C11-C15)
#include "wutil.h"
#ifndef QSIM_STRUCT
#define QSIM_STRUCT 1      // 0: this adapter is built without reading any private struct field (API-level oracles only)
#endif
#include <algorithm>
extern "C" {
#include "containers/qvector.h"
}

enum { V_ADD, V_GET, V_SET, V_POP, V_REMOVE, V_REVERSE, V_RESIZE, V_CLEAR, V_SIZE, V_TOARRAY, V_WALK, V_LOCKEDWALK, V_DEBUG, V_WALKSHRINK };
static const std::vector<std::string> V_NAMES = {"add", "get", "set", "pop", "remove", "reverse", "resize", "clear", "size", "toarray", "walk", "lockedwalk", "debug", "walk_shrink_continue"};
enum { NEWMEM = 0x40, NULLDATA = 0x200 };

struct VecWorld;
struct VecModel : Model {
    const VecWorld *w; std::vector<Bytes> v;
    explicit VecModel(const VecWorld *w_) : w(w_) {}
    Model *clone() const override { return new VecModel(*this); }
    Result apply(const Op &op) override;
    std::string dump() const override { Bytes o = "n=" + num((long long)v.size()) + ";"; for (auto &e : v) enc(o, e); return o; }
};

struct VecWorld : World {
    int es = 4, initmax = 0, policy = 0; bool threadsafe = false, mt = false;
    qvector_t *q = nullptr;
    const char *name() const override { return "vector"; }
    const std::vector<std::string> &opnames() const override { return V_NAMES; }

    void gen_cfg(Rng &r, const std::string &prop, const std::string &mode, Cfg &c) override {
        c.world = "vector";
        bool mtm = mode == "threads";
        c.set("es", r.chance(1, 3) ? r.pick(std::vector<int>{1, 2, 4, 8, 16, 64}) : r.range(1, 64));
        if (prop != "C10" && r.chance(1, 8)) c.set("es", r.pick(std::vector<int>{65, 100, 255, 256, 257, 300, 512, 513, 1000}));   // beyond C10's 1..64: copies must be exact for any size
        c.set("initmax", mtm ? r.pick(std::vector<int>{0, 1, 2}) : r.range(0, 8));
        c.set("policy", r.below(3));
        c.set("ts", (mtm || mode == "lockbal") ? 1 : (r.chance(1, 5) ? 1 : 0));
        c.set("mt", mtm ? 1 : 0);
        c.set("nops", r.range(5, r.chance(1, 4) ? 300 : 60));
        (void)prop;
    }
    Op gen_op(Rng &r, const std::string &prop, const std::string &mode, GenState &) override {
        Op op; bool mtm = mode == "threads"; bool c14 = prop == "C14";
        if (mtm) op.k = wpick(r, {{40, V_ADD}, {14, V_GET}, {20, V_POP}, {10, V_REMOVE}, {3, V_CLEAR}, {8, V_TOARRAY}, {5, V_LOCKEDWALK}});
        else op.k = wpick(r, {{34, V_ADD}, {12, V_GET}, {8, V_SET}, {10, V_POP}, {10, V_REMOVE}, {4, V_REVERSE}, {6, V_RESIZE}, {1, V_CLEAR}, {4, V_SIZE}, {5, V_TOARRAY}, {5, V_WALK}, {2, V_WALKSHRINK},
                              {c14 ? 3 : 0, V_DEBUG}, {c14 ? 5 : 0, V_LOCKEDWALK}});
        op.a = (int)r.below(64);
        op.b = (int)r.below(1 << 20);
        op.d = (int)r.below(3) | ((int)r.below(6) << 3);
        if (op.k == V_GET || op.k == V_WALK || op.k == V_LOCKEDWALK) op.d |= (mtm || r.chance(1, 2)) ? NEWMEM : 0;
        if (op.k == V_RESIZE) op.d = (int)r.below(5);
        if (c14 && op.k == V_ADD && r.chance(1, 10)) op.d |= NULLDATA;
        return op;
    }
    bool result_is_ambiguous(const Op &op) const override { return op.k == V_REVERSE || op.k == V_CLEAR; }
    bool is_mutation(const Op &op) const override { return op.k == V_ADD || op.k == V_SET || op.k == V_POP || op.k == V_REMOVE || op.k == V_REVERSE || op.k == V_RESIZE || op.k == V_CLEAR || op.k == V_WALKSHRINK; }

    void init(const Cfg &c) override { cfg = c; es = (int)c.get("es", 4); initmax = (int)c.get("initmax"); policy = (int)c.get("policy"); threadsafe = c.get("ts") != 0; mt = c.get("mt") != 0; }
    Model *new_model() override { return new VecModel(this); }
    Bytes value(const Op &op) const { return gen_value(op.b, es, (op.d >> 3) & 7); }
    // index relative to the current length (sequential modes); a fixed small range when several threads run, where the length is not the caller's to read
    static int index_of(int a, size_t n, bool mt) {
        if (mt) return (a % 7) - 3;
        if (a >= 60 && a < 64) { static const int far[4] = {2147483647, -2147483647 - 1, -2147483647, 2147483646}; return far[a - 60]; }   // the ends of int: always out of range
        return (int)(a % (int)(2 * n + 5)) - (int)(n + 2);
    }
    static size_t newmax_of(const Op &op, size_t n) {
        switch (op.d % 5) { case 0: return 0; case 1: return n ? (size_t)(op.a % (int)n) : 0; case 2: return n; case 3: return n + 1 + (size_t)(op.a % 5); default: return (size_t)(op.a % 12); }
    }

    bool sut_create(Ctx &x) override {
        int opt = (threadsafe ? QVECTOR_THREADSAFE : 0) | (policy == 2 ? QVECTOR_RESIZE_DOUBLE : policy == 1 ? QVECTOR_RESIZE_LINEAR : QVECTOR_RESIZE_EXACT);
        { InSut s; q = qvector((size_t)initmax, (size_t)es, opt); }
        static const char *pn[] = {"cfg.policy_exact", "cfg.policy_linear", "cfg.policy_double"};
        x.st.add(pn[policy]);
        return q != nullptr;
    }
    void sut_destroy(Ctx &) override { if (q) { InSut s; q->free(q); } q = nullptr; }
    void sut_abandon() override { q = nullptr; }
#if QSIM_STRUCT
    void *sut_mutex() override { return q ? q->qmutex : nullptr; }
    bool sut_sees_mutex() override { return true; }
#endif
    bool sut_user_lock() override { InSutLock s; q->lock(q); return true; }
    void sut_force_unlock() override { InSutLock s; q->unlock(q); }
    void sut_probe(Ctx &) override { InSut s; q->getat(q, 0, false); }

    Result take(void *p, bool held, Ctx &x, const char *what) {
        if (!p) return R_fail();
        Bytes got((const char *)p, (size_t)es);
        if (held) x.hold(p, got, what);
        return R_ok(encs(got));
    }
    Result sut_apply(const Op &op, Ctx &x) override {
        size_t n = mt ? 0 : q->size(q);      // size() reads the length without the lock: not for thread programs (indexes are absolute there)
        int idx = index_of(op.a, n, mt); int api = op.d & 7; if (api > 2) api = 2;
        switch (op.k) {
        case V_ADD: {
            Bytes v = value(op); CallerBuf vb(v); bool ok;
            const void *vp = (op.d & NULLDATA) ? nullptr : vb.p;
#if QSIM_STRUCT
            size_t max0 = q->max;
#endif
            { InSut s; ok = api == 0 ? q->addfirst(q, vp) : api == 1 ? q->addlast(q, vp) : q->addat(q, idx, vp); }
#if QSIM_STRUCT
            if (ok && !mt && q->max != max0) x.st.add("probe.grew");
#endif
            return ok ? R_ok() : R_fail();
        }
        case V_GET: {
            bool newmem = op.d & NEWMEM; void *p;
            { InSut s; p = api == 0 ? q->getfirst(q, newmem) : api == 1 ? q->getlast(q, newmem) : q->getat(q, idx, newmem); }
            return take(p, newmem, x, "vector.get(newmem)");
        }
        case V_SET: {
            Bytes v = value(op); CallerBuf vb(v); bool ok;
            { InSut s; ok = api == 0 ? q->setfirst(q, vb.p) : api == 1 ? q->setlast(q, vb.p) : q->setat(q, idx, vb.p); }
            return ok ? R_ok() : R_fail();
        }
        case V_POP: {
            void *p;
            { InSut s; p = api == 0 ? q->popfirst(q) : api == 1 ? q->poplast(q) : q->popat(q, idx); }
            return take(p, true, x, "vector.pop");
        }
        case V_REMOVE: {
            bool ok;
            { InSut s; ok = api == 0 ? q->removefirst(q) : api == 1 ? q->removelast(q) : q->removeat(q, idx); }
            return ok ? R_ok() : R_fail();
        }
        case V_REVERSE: {
            // reverse() returns nothing: whether it completed or gave up under an allocation failure is read from the contents
            { InSut s; q->reverse(q); }
            return R_ok();
        }
        case V_RESIZE: {
            size_t nm = newmax_of(op, n); bool ok;
            { InSut s; ok = q->resize(q, nm); }
            x.st.add(nm == 0 ? "probe.resize_zero" : nm < n ? "probe.resize_shrink" : "probe.resize_grow");
            return ok ? R_ok() : R_fail();
        }
        case V_CLEAR: { InSut s; q->clear(q); return R_ok(); }
        case V_SIZE: { size_t v; { InSut s; v = q->size(q); } return R_ok(num((long long)v)); }
        case V_TOARRAY: {
            size_t cnt = (size_t)-1; void *p;
            { InSut s; p = q->toarray(q, &cnt); }
            if (!p) return R_fail(num((long long)cnt));    // "size: the number of elements is stored" - also when there is nothing to return
            Bytes got((const char *)p, cnt * (size_t)es);
            x.hold(p, got, "vector.toarray");
            return R_ok(num((long long)cnt) + ":" + encs(got));
        }
        case V_WALK: case V_LOCKEDWALK: {
            bool newmem = op.d & NEWMEM;
            if (op.k == V_LOCKEDWALK) { InSutLock s; q->lock(q); }
            qvector_obj_t o; memset(&o, 0, sizeof o);
            Bytes out; size_t cnt = 0, guard = q->size(q) * 2 + 8; bool failed = false; int fired_seen = sim_fault_fired(), retries = 0;
            for (;;) {
                bool more; { InSut s; more = q->getnext(q, &o, newmem); }
                if (!more && newmem && sim_fault_fired() > fired_seen && retries < 1) { fired_seen = sim_fault_fired(); retries++; failed = true; x.st.add("probe.walk_step_retried_after_enomem"); continue; }   // a step reported failure: so does the walk (the retry only probes that the cursor is still safe to use)
                if (!more) { if (sim_fault_fired() > fired_seen) failed = true; break; }
                Bytes e((const char *)o.data, (size_t)es);
                if (newmem) x.hold(o.data, e, "vector.getnext(newmem)");
                enc(out, e);
                if (++cnt > guard) { if (op.k == V_LOCKEDWALK) { InSutLock s; q->unlock(q); } x.fail("walk-mismatch", "result", "walk does not end"); }
            }
            if (op.k == V_LOCKEDWALK) { InSutLock s; q->unlock(q); }
            return failed ? R_fail(out) : R_ok(out + "$");
        }
        case V_WALKSHRINK: {
            // walk j steps, shrink the vector below the cursor, keep calling getnext with the old cursor: it must report the end
            qvector_obj_t o; memset(&o, 0, sizeof o);
            Bytes out; size_t steps = (size_t)(op.a % 5) + 1, cnt = 0;
            for (; cnt < steps; cnt++) { bool more; { InSut s; more = q->getnext(q, &o, false); } if (!more) break; enc(out, Bytes((const char *)o.data, (size_t)es)); }
            size_t n0; { InSut s; n0 = q->size(q); }
            size_t drop = (size_t)(op.b % 4) + 1;
            for (size_t k = 0; k < drop && k < n0; k++) { InSut s; q->removelast(q); }
            out += "|";
            for (size_t k = 0; k < n0 + 4; k++) { bool more; { InSut s; more = q->getnext(q, &o, false); } if (!more) { out += "$"; break; } enc(out, Bytes((const char *)o.data, (size_t)es)); }
            x.st.add("probe.getnext_with_cursor_past_the_end");
            return R_ok(out);
        }
        case V_DEBUG: {
            FILE *f = fopen("/dev/null", "w"); bool ok;
            { InSut s; ok = q->debug(q, f); }
            fclose(f);
            return ok ? R_ok() : R_fail();
        }
        }
        return R_ok();
    }
    std::string sut_dump(Ctx &) override {
        size_t n; { InSut s; n = q->size(q); }
        Bytes o = "n=" + num((long long)n) + ";";
        for (size_t i = 0; i < n; i++) { void *p; { InSut s; p = q->getat(q, (int)i, false); } if (p) enc(o, p, (size_t)es); else o += "<missing>"; }
        return o;
    }
    void sut_struct(Ctx &x) override {
#if !QSIM_STRUCT
        (void)x; return;
#else
        if (!q) return;
        if (q->num > q->max) x.fail("structure", "struct", "element count " + num((long long)q->num) + " exceeds capacity " + num((long long)q->max));
        if (q->objsize != (size_t)es) x.fail("structure", "struct", "element size changed from " + num(es) + " to " + num((long long)q->objsize));
        if (q->max > 0 && q->data == nullptr) x.fail("structure", "struct", "capacity " + num((long long)q->max) + " without a buffer");
        x.st.add("struct.checks");
#endif
    }
    std::string render(const Op &op) const override {
        char b[200];
        switch (op.k) {
        case V_ADD: case V_SET: snprintf(b, sizeof b, "%s api%d index-spec %d value(seed %d,class %d)%s", V_NAMES[op.k].c_str(), op.d & 7, op.a, op.b, (op.d >> 3) & 7, (op.d & NULLDATA) ? " NULL-data" : ""); break;
        case V_GET: case V_POP: case V_REMOVE: snprintf(b, sizeof b, "%s api%d index-spec %d newmem=%d", V_NAMES[op.k].c_str(), op.d & 7, op.a, (op.d & NEWMEM) ? 1 : 0); break;
        case V_RESIZE: snprintf(b, sizeof b, "resize rule %d arg %d", op.d % 5, op.a); break;
        default: snprintf(b, sizeof b, "%s", V_NAMES[op.k].c_str()); break;
        }
        return b;
    }
};

Result VecModel::apply(const Op &op) {
    size_t n = v.size(); int idx = VecWorld::index_of(op.a, n, w->mt); int api = op.d & 7; if (api > 2) api = 2;
    auto norm = [&](long &pos) { if (api == 0) pos = 0; else if (api == 1) pos = (long)n - 1; else { pos = idx; if (pos < 0) pos += (long)n; } return pos >= 0 && pos < (long)n; };
    switch (op.k) {
    case V_ADD: {
        if (op.d & NULLDATA) return R_fail();
        long pos;
        if (api == 0) pos = 0; else if (api == 1) pos = (long)n; else { pos = idx; if (pos < 0) pos += (long)n; if (pos < 0 || pos > (long)n) return R_fail(); }
        v.insert(v.begin() + pos, w->value(op)); return R_ok();
    }
    case V_GET: { long pos; if (!norm(pos)) return R_fail(); return R_ok(encs(v[pos])); }
    case V_SET: { long pos; if (!norm(pos)) return R_fail(); v[pos] = w->value(op); return R_ok(); }
    case V_POP: { long pos; if (!norm(pos)) return R_fail(); Bytes e = v[pos]; v.erase(v.begin() + pos); return R_ok(encs(e)); }
    case V_REMOVE: { long pos; if (!norm(pos)) return R_fail(); v.erase(v.begin() + pos); return R_ok(); }
    case V_REVERSE: std::reverse(v.begin(), v.end()); return R_ok();
    case V_RESIZE: { size_t nm = VecWorld::newmax_of(op, n); if (n > nm) v.resize(nm); return R_ok(); }
    case V_CLEAR: v.clear(); return R_ok();
    case V_SIZE: return R_ok(num((long long)n));
    case V_TOARRAY: { if (n == 0) return R_fail("0"); Bytes all; for (auto &e : v) all += e; return R_ok(num((long long)n) + ":" + encs(all)); }
    case V_WALK: case V_LOCKEDWALK: { Bytes o; for (auto &e : v) enc(o, e); return R_ok(o + "$"); }
    case V_WALKSHRINK: {
        Bytes out; size_t steps = (size_t)(op.a % 5) + 1, cnt = 0;
        for (; cnt < steps && cnt < v.size(); cnt++) enc(out, v[cnt]);
        size_t drop = (size_t)(op.b % 4) + 1;
        for (size_t k = 0; k < drop && !v.empty(); k++) v.pop_back();
        out += "|";
        for (size_t k = cnt; k < v.size(); k++) enc(out, v[k]);
        return R_ok(out + "$");
    }
    case V_DEBUG: return R_ok();
    }
    return R_ok();
}

World *make_vector() { return new VecWorld(); }
