// Seams: allocation layer, mutex/usleep/time wraps, baton scheduler.
// This translation unit is never compiled with -fsanitize=thread: the baton hand-off must not
// create happens-before edges that ThreadSanitizer can see (DESIGN 2.4).
#include "sim.h"
#include "core.h"
#include <pthread.h>
#include <unistd.h>
#include <errno.h>
#include <time.h>
#include <sys/syscall.h>
#include <linux/futex.h>
#include <unordered_map>
#include <atomic>

extern "C" {
void *__real_malloc(size_t);
void *__real_calloc(size_t, size_t);
void *__real_realloc(void *, size_t);
char *__real_strdup(const char *);
void __real_free(void *);
int __real_pthread_mutex_trylock(pthread_mutex_t *);
int __real_pthread_mutex_unlock(pthread_mutex_t *);
int __real_usleep(useconds_t);
time_t __real_time(time_t *);
FILE *__real_fopen(const char *, const char *);
}

// =============================================================== allocation layer
struct LedRec { size_t size; uint64_t serial; int tag; };
static std::unordered_map<void *, LedRec> *g_led;
static uint64_t g_serial, g_total_allocs, g_total_faults;
static thread_local int t_in_sut = 0;
struct OpAlloc { int tag, fk, fm, count, fired; };
static thread_local OpAlloc t_op = {0, 0, 0, 0, 0};
static thread_local int t_suspend = 0;
void sim_fault_suspend(bool on) { if (on) t_suspend++; else if (t_suspend > 0) t_suspend--; }
bool sim_fault_suspended() { return t_suspend > 0; }
// errno as the library sees it: the value left by the previous real (non-bookkeeping) call into the library on this thread;
// harness code and bookkeeping calls in between never leak into it
static thread_local int t_sut_errno = 0;
void sim_errno_reset() { t_sut_errno = 0; errno = 0; }
void sim_errno_enter() { if (!t_suspend) errno = t_sut_errno; }
void sim_errno_leave() { if (!t_suspend) t_sut_errno = errno; }

static std::unordered_map<void *, LedRec> &led() { if (!g_led) g_led = new std::unordered_map<void *, LedRec>(); return *g_led; }

void sim_alloc_reset() { led().clear(); t_op = OpAlloc{0, 0, 0, 0, 0}; t_suspend = 0; }     // (a call aborted by the step budget may have left the suspension on)
void sim_op_begin(int tag, int fk, int fm) { t_op = OpAlloc{tag, fk, fm, 0, 0}; }
int sim_op_end() { int c = t_op.count; t_op.fk = 0; t_op.fm = 0; return c; }
int sim_op_allocs() { return t_op.count; }
int sim_fault_fired() { return t_op.fired; }
void sim_in_sut(bool on) { t_in_sut = on ? 1 : 0; }
bool sim_is_in_sut() { return t_in_sut != 0; }
uint64_t sim_total_allocs() { return g_total_allocs; }
uint64_t sim_total_faults() { return g_total_faults; }
size_t sim_ledger_live(std::string *detail) {
    if (detail && !led().empty()) {
        // deterministic description: sort by serial
        std::vector<LedRec> v;
        for (auto &kv : led()) v.push_back(kv.second);
        std::sort(v.begin(), v.end(), [](const LedRec &a, const LedRec &b) { return a.serial < b.serial; });
        char buf[96];
        for (size_t i = 0; i < v.size() && i < 4; i++) {
            snprintf(buf, sizeof buf, "%s[%zu bytes, allocated in op#%d]", i ? "," : "", v[i].size, v[i].tag);
            *detail += buf;
        }
    }
    return led().size();
}
bool sim_ledger_has(const void *p) { return g_led && led().find((void *)p) != led().end(); }
// returns true when this allocation must fail
static bool alloc_gate() {
    if (t_suspend) return false;      // harness bookkeeping calls into the SUT: neither counted nor failed
    t_op.count++;
    g_total_allocs++;
    if (t_op.fk > 0 && (t_op.count == t_op.fk || (t_op.fm == 2 && t_op.count > t_op.fk))) {
        t_op.fired++;
        g_total_faults++;
        errno = ENOMEM;
        return true;
    }
    return false;
}
// A NULL from the real allocator for a modest size is the machine running out of memory, not an injected fault: the run
// cannot be trusted any more. End like a starved process (harness error; the run is repeated in isolation).
static void real_null(size_t n) {
    if (n >= ((size_t)1 << 31)) return;       // an absurd size computed by the library itself fails naturally: that is its own business
    static const char msg[] = "\nSTARVED (the real allocator returned NULL)\n"; ssize_t r = write(1, msg, sizeof msg - 1); (void)r; _exit(79);
}
static void led_add(void *p, size_t n) { if (p) led()[p] = LedRec{n, ++g_serial, t_op.tag}; else real_null(n); }

extern "C" void *__wrap_malloc(size_t n) {
    if (!t_in_sut) return __real_malloc(n);
    if (alloc_gate()) return NULL;
    t_in_sut = 0; void *p = __real_malloc(n); led_add(p, n); t_in_sut = 1;
    return p;
}
extern "C" void *__wrap_calloc(size_t a, size_t b) {
    if (!t_in_sut) return __real_calloc(a, b);
    if (alloc_gate()) return NULL;
    t_in_sut = 0; size_t n; bool ovf = __builtin_mul_overflow(a, b, &n); void *p = __real_calloc(a, b); if (p || !ovf) led_add(p, n); t_in_sut = 1;
    return p;
}
extern "C" void *__wrap_realloc(void *q, size_t n) {
    if (!t_in_sut) {
        // the client may realloc a block the SUT handed out: keep the ledger exact
        if (q && g_led) { auto it = led().find(q); if (it != led().end()) led().erase(it); }
        return __real_realloc(q, n);
    }
    if (n != 0 && alloc_gate()) return NULL;   // old block stays valid, like glibc
    t_in_sut = 0;
    bool had = false; LedRec old{};
    if (q) { auto it = led().find(q); if (it != led().end()) { had = true; old = it->second; led().erase(it); } }
    void *p = __real_realloc(q, n);
    if (p) led_add(p, n); else { if (had && n != 0) led()[q] = old; if (n != 0) real_null(n); }
    t_in_sut = 1;
    return p;
}
extern "C" char *__wrap_strdup(const char *s) {
    if (!t_in_sut) return __real_strdup(s);
    if (alloc_gate()) return NULL;
    t_in_sut = 0; size_t n = strlen(s) + 1; char *p = (char *)__real_malloc(n); if (p) memcpy(p, s, n); led_add(p, n); t_in_sut = 1;
    return p;
}
extern "C" void __wrap_free(void *p) {
    if (p && g_led) {
        int save = t_in_sut; t_in_sut = 0;
        auto it = led().find(p);
        if (it != led().end()) led().erase(it);
        t_in_sut = save;
    }
    __real_free(p);
}

// =============================================================== file layer (qlog rotation)
static thread_local int t_fopen_fail = 0;
static uint64_t g_fopen_failed = 0;
void sim_fopen_fail(int n) { t_fopen_fail = n; }
uint64_t sim_fopen_failed() { return g_fopen_failed; }
static thread_local int t_write_fail = 0;
static uint64_t g_write_failed = 0;
void sim_write_fail(int n) { t_write_fail = n; }
uint64_t sim_write_failed() { return g_write_failed; }
extern "C" ssize_t __real_write(int, const void *, size_t);
extern "C" ssize_t __wrap_write(int fd, const void *buf, size_t n) {
    if (t_in_sut && t_write_fail > 0 && fd > 2) { t_write_fail--; g_write_failed++; errno = ENOSPC; return -1; }   // "disk full"
    return __real_write(fd, buf, n);
}
extern "C" FILE *__wrap_fopen(const char *path, const char *mode) {
    if (t_in_sut && t_fopen_fail > 0) { t_fopen_fail--; g_fopen_failed++; errno = EACCES; return NULL; }
    return __real_fopen(path, mode);
}

// =============================================================== clock
static std::atomic<uint64_t> g_sim_us{0};
static long g_clock_jump = 0;
uint64_t sim_now_us() { return g_sim_us.load(); }
void sim_clock_jump(long s) { g_clock_jump += s; }
void sim_clock_reset() { g_sim_us = 0; g_clock_jump = 0; }
static const time_t SIM_EPOCH = 1700000000;   // fixed base
extern "C" time_t __wrap_time(time_t *t) {
    time_t v = SIM_EPOCH + (time_t)(g_sim_us.load() / 1000000) + g_clock_jump;
    if (t) *t = v;
    return v;
}

// =============================================================== scheduler
enum { TS_NEW = 0, TS_RUN = 1, TS_WAIT = 2, TS_DONE = 3 };
struct SThread {
    pthread_t th;
    std::atomic<int> go;
    int state;
    pthread_mutex_t *wait_on;
    long stall_budget;
    int depth;
    const std::function<void()> *body;
};
static const int MAXT = 8;
static SThread T[MAXT];
static int NT = 0;
static std::atomic<int> g_main_go{0};
static bool g_active = false;
static thread_local int t_self = -1;
static int g_main_depth = 0;          // lock depth of the un-simulated (main) thread
static SchedCfg g_cfg;
static Rng g_srng;
static const int MAXDEC = 20000;
static int g_dec[MAXDEC];
static uint64_t g_ndec, g_switches, g_blocked, g_forced, g_stalls;
static int g_replay_pos;
static bool g_trunc, g_poison, g_deadlock;
static std::atomic<uint64_t> g_event{0};
struct MRec { pthread_mutex_t *m; int owner; int depth; };
static MRec g_m[16];
static int g_nm;
// probe (lock-step)
static int g_probe_req = 0, g_probe_done_flag = 0, g_probe_starved = 0, g_probe_shutdown = 0;
static long g_probe_spins = 0;

static void futex_wait(std::atomic<int> *a, int val) { syscall(SYS_futex, (int *)a, FUTEX_WAIT_PRIVATE, val, NULL, NULL, 0); }
static void futex_wake(std::atomic<int> *a) { syscall(SYS_futex, (int *)a, FUTEX_WAKE_PRIVATE, 1, NULL, NULL, 0); }
static void park(std::atomic<int> *a) {
    for (int spin = 0; spin < 200; spin++) { if (a->load(std::memory_order_acquire)) break; __builtin_ia32_pause(); }
    while (!a->load(std::memory_order_acquire)) futex_wait(a, 0);
    a->store(0, std::memory_order_relaxed);
}
static void unpark(std::atomic<int> *a) { a->store(1, std::memory_order_release); futex_wake(a); }

static thread_local int t_depth_change = 0;
void sim_note_depth_change(int delta) { if (!t_depth_change) t_depth_change = delta; }
int sim_take_depth_change() { int d = t_depth_change; t_depth_change = 0; return d; }
int sim_self() { return t_self; }
uint64_t sim_event() { return ++g_event; }
int sim_lock_depth() { return t_self >= 0 ? T[t_self].depth : g_main_depth; }
void sim_lock_depth_reset() { if (t_self >= 0) T[t_self].depth = 0; else g_main_depth = 0; g_nm = 0; t_depth_change = 0; }
bool sim_poisoned() { return g_poison; }

static MRec *mrec(pthread_mutex_t *m, bool create) {
    for (int i = 0; i < g_nm; i++) if (g_m[i].m == m) return &g_m[i];
    if (!create) return nullptr;
    if (g_nm == 16) g_nm = 0;     // recycle (one container per run in practice)
    g_m[g_nm] = MRec{m, -2, 0};
    return &g_m[g_nm++];
}

static bool runnable(int i) { return T[i].state == TS_RUN || T[i].state == TS_NEW; }

static void transfer(int self, int next) {
    // hand the baton from self (may be finished) to next, and park self unless finished
    if (next == self) return;
    g_switches++;
    unpark(&T[next].go);
    if (self >= 0 && T[self].state != TS_DONE) park(&T[self].go);
}

// choose who runs next; self may be non-runnable. Returns -1 when nobody can run.
static int pick(int self) {
    int R[MAXT], nr = 0, W[MAXT], nw = 0;
    for (int i = 0; i < NT; i++) { if (runnable(i)) R[nr++] = i; else if (T[i].state == TS_WAIT) W[nw++] = i; }
    if (nr == 0) return -1;
    bool self_ok = self >= 0 && runnable(self);
    int dflt = self_ok ? self : R[0];
    if (g_trunc || g_poison) return dflt;
    bool forced = (nr == 1) && (nw == 0 || g_cfg.stall_permille == 0);
    if (forced) return R[0];
    if (g_ndec >= (uint64_t)g_cfg.max_decisions || g_ndec >= (uint64_t)MAXDEC) { g_trunc = true; return dflt; }
    int choice = dflt;
    if (g_cfg.use_replay) {
        if (g_replay_pos < g_cfg.nreplay) {
            int d = g_cfg.replay[g_replay_pos];
            if (d >= 0 && d < NT && runnable(d)) choice = d;
            else if (d < 0) { int w = -(d + 1); if (w < NT && T[w].state == TS_WAIT) { choice = d; } }
        }
        g_replay_pos++;
    } else {
        if (nw > 0 && g_cfg.stall_permille > 0 && (int)g_srng.below(1000) < g_cfg.stall_permille) {
            choice = -(W[g_srng.below(nw)] + 1);
        } else if (self_ok && (int)g_srng.below(100) < g_cfg.p_cont) {
            choice = self;
        } else {
            choice = R[g_srng.below(nr)];
        }
    }
    g_dec[g_ndec++] = choice;
    if (choice < 0) {
        int w = -(choice + 1);
        T[w].stall_budget = 2 * 5000 + 8;      // every attempt of the spinning waiter passes two yield points (the failed trylock and the pause):
                                              // enough to exhaust one MAX_MUTEX_LOCK_WAIT round and force-unlock once
        T[w].state = TS_RUN;           // it will spin and block again afterwards
        g_stalls++;
        return w;
    }
    return choice;
}

static void finish_all_wake_main() { unpark(&g_main_go); }

void sim_yield(int why) {
    (void)why;
    if (!g_active || t_self < 0) return;
    int self = t_self;
    SThread &me = T[self];
    if (g_cfg.lockstep) {
        if (self == 1 && why == Y_SLEEP) {
            // probe thread spinning on a held lock
            if (++g_probe_spins > 3 * 5000 + 10 && !g_probe_starved) {
                g_probe_starved = 1;
                transfer(1, 0);      // give the driver a chance to report and release
            }
        }
        return;
    }
    if (me.stall_budget > 0 && me.state != TS_DONE) { me.stall_budget--; me.state = TS_RUN; return; }
    int next = pick(self);
    if (next < 0) {
        // nobody can run: every live thread waits for a lock nobody will release
        g_deadlock = true; g_poison = true;
        for (int i = 0; i < NT; i++) if (T[i].state == TS_WAIT) T[i].state = TS_RUN;
        next = pick(self);
        if (next < 0) { finish_all_wake_main(); return; }
    }
    transfer(self, next);
}

extern "C" int __wrap_pthread_mutex_trylock(pthread_mutex_t *m) {
    if (!g_active || t_self < 0) {
        int r = __real_pthread_mutex_trylock(m);
        if (r == 0 && t_self < 0) g_main_depth++;
        return r;
    }
    sim_yield(Y_LOCK);
    if (g_poison) { return 0; }
    SThread &me = T[t_self];
    int r = __real_pthread_mutex_trylock(m);
    if (r == 0) {
        me.depth++; me.wait_on = nullptr;
        MRec *mr = mrec(m, true); mr->owner = t_self; mr->depth++;
    } else {
        g_blocked++;
        me.wait_on = m;
        if (me.stall_budget <= 0 && !g_cfg.lockstep) {
            me.state = TS_WAIT;
            // hand the baton over right here: the simulation must not depend on which primitive the library
            // uses to pause between attempts (usleep today)
            sim_yield(Y_SLEEP);
        }
    }
    return r;
}
extern "C" int __wrap_pthread_mutex_lock(pthread_mutex_t *m);
// Timed acquisitions are blocking acquisitions whose deadline never arrives in simulated time.
extern "C" int __wrap_pthread_mutex_timedlock(pthread_mutex_t *m, const struct timespec *) { return __wrap_pthread_mutex_lock(m); }
extern "C" int __wrap_pthread_mutex_clocklock(pthread_mutex_t *m, clockid_t, const struct timespec *) { return __wrap_pthread_mutex_lock(m); }
// A blocking lock would park a thread that holds the baton; express it as try-and-yield so that a library that
// switches from the trylock spin to pthread_mutex_lock still runs under the simulator.
extern "C" int __real_pthread_mutex_lock(pthread_mutex_t *);
extern "C" int __wrap_pthread_mutex_lock(pthread_mutex_t *m) {
    if (!g_active || t_self < 0) {
        int r = __real_pthread_mutex_lock(m);
        if (r == 0 && t_self < 0) g_main_depth++;
        return r;
    }
    for (;;) {
        int r = __wrap_pthread_mutex_trylock(m);
        if (r != EBUSY) return r;
        if (g_cfg.lockstep) sim_yield(Y_SLEEP);
    }
}
extern "C" int __wrap_pthread_mutex_unlock(pthread_mutex_t *m) {
    if (!g_active || t_self < 0) {
        int r = __real_pthread_mutex_unlock(m);
        if (r == 0 && t_self < 0) g_main_depth--;
        return r;
    }
    if (g_poison) { __real_pthread_mutex_unlock(m); return 0; }
    SThread &me = T[t_self];
    int r = __real_pthread_mutex_unlock(m);
    if (r == 0) {
        me.depth--;
        MRec *mr = mrec(m, false);
        if (mr && --mr->depth <= 0) {
            mr->depth = 0; mr->owner = -2;
            for (int i = 0; i < NT; i++) if (T[i].state == TS_WAIT && T[i].wait_on == m) T[i].state = TS_RUN;
        }
    } else {
        g_forced++;    // non-owner "force unlock" (EPERM on a recursive mutex)
    }
    sim_yield(Y_UNLOCK);
    return r;
}
extern "C" int __wrap_usleep(useconds_t us) {
    if (!g_active || t_self < 0) { g_sim_us += us; return 0; }   // never really sleep
    g_sim_us += us;
    sim_yield(Y_SLEEP);
    return 0;
}

static void *thread_main(void *arg) {
    int id = (int)(intptr_t)arg;
    t_self = id;
    park(&T[id].go);
    T[id].state = TS_RUN;
    (*T[id].body)();
    T[id].state = TS_DONE;
    // release waiters that can never be served is the deadlock path's job; pick a successor
    if (g_cfg.lockstep) {
        if (id == 0) { g_probe_shutdown = 1; if (T[1].state != TS_DONE) { unpark(&T[1].go); return nullptr; } finish_all_wake_main(); }
        else { if (T[0].state != TS_DONE) unpark(&T[0].go); else finish_all_wake_main(); }
        return nullptr;
    }
    int next = pick(id);
    if (next < 0) {
        bool any = false;
        for (int i = 0; i < NT; i++) if (T[i].state == TS_WAIT) any = true;
        if (any) {
            g_deadlock = true; g_poison = true;
            for (int i = 0; i < NT; i++) if (T[i].state == TS_WAIT) T[i].state = TS_RUN;
            next = pick(id);
        }
    }
    if (next < 0) finish_all_wake_main(); else unpark(&T[next].go);
    return nullptr;
}

void sim_run_threads(const SchedCfg &cfg, const std::vector<std::function<void()>> &bodies, SchedOut &out) {
    g_cfg = cfg; NT = (int)bodies.size();
    g_srng.reseed(cfg.seed ^ 0x5ced5ced5cedULL);
    g_ndec = g_switches = g_blocked = g_forced = g_stalls = 0; g_replay_pos = 0;
    g_trunc = g_poison = g_deadlock = false; g_nm = 0; g_event = 0;
    g_probe_req = g_probe_done_flag = g_probe_starved = g_probe_shutdown = 0; g_probe_spins = 0;
    uint64_t us0 = g_sim_us.load();
    for (int i = 0; i < NT; i++) {
        T[i].go.store(0); T[i].state = TS_NEW; T[i].wait_on = nullptr; T[i].stall_budget = 0; T[i].depth = 0; T[i].body = &bodies[i];
    }
    g_main_go.store(0);
    g_active = true;
    pthread_attr_t at; pthread_attr_init(&at); pthread_attr_setstacksize(&at, 1 << 20);
    for (int i = 0; i < NT; i++) {
        if (pthread_create(&T[i].th, &at, thread_main, (void *)(intptr_t)i) != 0) {
            // the environment refuses another thread: not a verdict, end like a starved process (harness error, run is repeated in isolation)
            static const char msg[] = "\nSTARVED (pthread_create failed)\n"; ssize_t r = write(1, msg, sizeof msg - 1); (void)r; _exit(79);
        }
    }
    pthread_attr_destroy(&at);
    int first = cfg.lockstep ? 0 : pick(-1);
    if (first < 0) first = 0;
    unpark(&T[first].go);
    park(&g_main_go);
    for (int i = 0; i < NT; i++) pthread_join(T[i].th, nullptr);
    g_active = false;
    out.decisions.assign(g_dec, g_dec + g_ndec);
    out.ndecisions = g_ndec; out.switches = g_switches; out.blocked = g_blocked; out.forced_unlock = g_forced; out.stalls = g_stalls;
    out.truncated = g_trunc; out.deadlock = g_deadlock; out.sim_us = g_sim_us.load() - us0;
    out.leaked_depth = 0; for (int i = 0; i < NT; i++) out.leaked_depth += T[i].depth;
}

// ---- lock-step probe protocol (threads: 0 = driver, 1 = probe)
bool sim_probe_run() {
    // driver: let the probe thread perform (or continue) one operation; true = it completed
    g_probe_req = 1; g_probe_done_flag = 0; g_probe_starved = 0; g_probe_spins = 0;
    transfer(0, 1);
    return g_probe_done_flag != 0;
}
bool sim_probe_resume() {
    g_probe_spins = 0; g_probe_starved = 0;
    transfer(0, 1);
    return g_probe_done_flag != 0;
}
bool sim_probe_wait() {
    // probe: called at the top of its loop
    while (!g_probe_req && !g_probe_shutdown) transfer(1, 0);
    if (g_probe_shutdown && !g_probe_req) return false;
    g_probe_req = 0;
    return true;
}
void sim_probe_done() { g_probe_done_flag = 1; transfer(1, 0); }
void sim_probe_shutdown() { g_probe_shutdown = 1; }
long sim_probe_spins() { return g_probe_spins; }

// =============================================================== TSan report hook
static int g_races = 0;
static char g_race_buf[700];
int sim_race_reports() { return g_races; }
std::string sim_race_last() { return std::string(g_race_buf); }
void sim_race_reset() { g_races = 0; g_race_buf[0] = 0; }

#ifdef QSIM_TSAN
extern "C" {
int __tsan_get_report_data(void *report, const char **description, int *count, int *stack_count, int *mop_count, int *loc_count,
                           int *mutex_count, int *thread_count, int *unique_tid_count, void **sleep_trace, unsigned long trace_size);
int __tsan_get_report_mop(void *report, unsigned long idx, int *tid, void **addr, int *size, int *write, int *atomic, void **trace,
                          unsigned long trace_size);
void __sanitizer_symbolize_pc(void *pc, const char *fmt, char *out_buf, size_t out_buf_size);
// No heap allocation in here: the hook runs inside the TSan runtime.
void __tsan_on_report(void *report) {
    const char *desc = ""; int count, sc, mc = 0, lc, mtc, tc, utc; void *sleep[4];
    __tsan_get_report_data(report, &desc, &count, &sc, &mc, &lc, &mtc, &tc, &utc, sleep, 4);
    if (g_poison) return;
    char where[600]; where[0] = 0; size_t wl = 0;
    // A race on container state is a race between two calls into the library: for BOTH accesses the first frame outside
    // the sanitizer runtime must be qlibc code. (The harness is not instrumented, but its operator new/delete and libc
    // calls are intercepted: e.g. the allocation ledger's hash table rehashing inside a wrapped malloc is harness memory
    // handed from thread to thread under the baton, which ThreadSanitizer cannot know.)
    int in_sut_count = 0, seen = 0;
    for (int i = 0; i < mc && i < 2; i++) {
        int tid, size, wr, at; void *addr; void *trace[12] = {0};
        __tsan_get_report_mop(report, i, &tid, &addr, &size, &wr, &at, trace, 12);
        char frame[200]; snprintf(frame, sizeof frame, "?");
        seen++;
        for (int f = 0; f < 12 && trace[f]; f++) {
            char buf[512]; buf[0] = 0;
            __sanitizer_symbolize_pc(trace[f], "%f@%s", buf, sizeof buf);
            if (strstr(buf, "libsanitizer") || strstr(buf, "tsan_") || strstr(buf, "sanitizer_common")) continue;   // runtime frames
            if (strstr(buf, "/src/containers/") || strstr(buf, "/src/internal/") || strstr(buf, "/src/utilities/") ||
                strstr(buf, "/src/extensions/")) {
                char *at2 = strchr(buf, '@');
                const char *file = at2 ? at2 + 1 : "";
                if (at2) *at2 = 0;
                const char *sl = strrchr(file, '/');
                snprintf(frame, sizeof frame, "%s:%s", sl ? sl + 1 : file, buf);
                in_sut_count++;
            }
            break;      // only the first non-runtime frame decides
        }
        wl += snprintf(where + wl, sizeof where - wl, "%s%s %s", i ? " <-> " : "", wr ? "write" : "read", frame);
        if (wl >= sizeof where) wl = sizeof where - 1;
    }
    if (seen == 0 || in_sut_count < seen) return;
    g_races++;
    if (!g_race_buf[0]) snprintf(g_race_buf, sizeof g_race_buf, "%s: %s", desc ? desc : "", where);
}
const char *__tsan_default_options() { return "halt_on_error=0:report_signal_unsafe=0:exitcode=0:second_deadlock_stack=0:suppress_equal_stacks=0:suppress_equal_addresses=0"; }
}
#endif
