// Seams owned by the simulator: allocator, mutex/usleep/time wraps, baton scheduler.
// Implemented in seams.cpp, which is NEVER compiled with -fsanitize=thread (see DESIGN 2.4).
#pragma once
#include <cstdint>
#include <cstddef>
#include <functional>
#include <vector>
#include <string>

// ------------------------------------------------------------ allocation layer
void sim_alloc_reset();                      // new run: empty ledger, clear fault
void sim_op_begin(int tag, int fk, int fm);  // per-op allocation counter := 0, arm fault (fk=0: none)
int  sim_op_end();                           // disarm; returns #allocations made inside SUT calls of this op
int  sim_op_allocs();                        // allocations so far in this op
int  sim_fault_fired();                      // #allocations failed in this op
void sim_fault_suspend(bool on);             // thread-local, nests: SUT calls made for harness bookkeeping are neither counted nor failed
bool sim_fault_suspended();
void sim_errno_reset();                      // new run
void sim_errno_enter();                      // restore errno to what the previous real library call left (not for bookkeeping calls)
void sim_errno_leave();
void sim_write_fail(int n);                  // the next n write() calls made by the SUT on fds > 2 fail with ENOSPC
uint64_t sim_write_failed();
void sim_in_sut(bool on);                    // thread-local: allocations/frees are the SUT's
bool sim_is_in_sut();
size_t sim_ledger_live(std::string *detail = nullptr);  // live SUT-allocated blocks
bool sim_ledger_has(const void *p);                     // p is the start of a live block allocated by the SUT
uint64_t sim_total_allocs();
uint64_t sim_total_faults();
int  sim_lock_depth();
void sim_note_depth_change(int delta);       // a single SUT call returned with the lock depth changed
int  sim_take_depth_change();                // first recorded change since the last take (0 = none)
// every call into the SUT goes through one of these guards; InSut also checks "same lock depth on return as on entry"
struct InSut { int d0; InSut() { sim_in_sut(true); d0 = sim_lock_depth(); sim_errno_enter(); } ~InSut() { sim_errno_leave(); int d = sim_lock_depth() - d0; if (d) sim_note_depth_change(d); sim_in_sut(false); } };
struct InSutLock { InSutLock() { sim_in_sut(true); sim_errno_enter(); } ~InSutLock() { sim_errno_leave(); sim_in_sut(false); } };
struct Bookkeeping { Bookkeeping() { sim_fault_suspend(true); } ~Bookkeeping() { sim_fault_suspend(false); } };   // for the container's own lock()/unlock()

// ------------------------------------------------------------ file layer
void sim_fopen_fail(int n);                  // the next n fopen() calls made by the SUT on this thread fail (EACCES)
uint64_t sim_fopen_failed();

// ------------------------------------------------------------ clock
uint64_t sim_now_us();
void sim_clock_jump(long seconds);
void sim_clock_reset();

// ------------------------------------------------------------ scheduler
enum { Y_LOCK = 1, Y_UNLOCK = 2, Y_SLEEP = 3, Y_OP = 4 };
struct SchedCfg {
    int nthreads = 0;
    uint64_t seed = 0;            // schedule PRNG stream
    int p_cont = 60;              // % chance to keep running the current thread at a decision
    int stall_permille = 0;       // chance to inject a stall fault at a decision where a thread waits
    const int *replay = nullptr;  // recorded decisions (thread ids; <0 stall)
    int nreplay = 0;
    bool use_replay = false;
    int max_decisions = 4000;
    bool lockstep = false;        // lock-balance mode: thread 0 drives, thread 1 probes on request
};
struct SchedOut {
    std::vector<int> decisions;
    uint64_t ndecisions = 0, switches = 0, blocked = 0, forced_unlock = 0, stalls = 0, sim_us = 0;
    bool truncated = false, deadlock = false;
    int leaked_depth = 0;         // lock depth still held by finished threads
};
// run bodies[i] as sim thread i, fully serialised under the baton; returns when all finished
void sim_run_threads(const SchedCfg &cfg, const std::vector<std::function<void()>> &bodies, SchedOut &out);
int  sim_self();                 // sim thread id, -1 outside
void sim_yield(int why);         // decision point (no-op outside a simulated run)
uint64_t sim_event();            // next global event sequence number
int  sim_lock_depth();           // successful trylocks - successful unlocks by the calling sim thread (or main)
void sim_lock_depth_reset();
bool sim_poisoned();
// lock-step helper (C14): run the probe thread until it finished one probe; returns false if it starved
bool sim_probe_run();            // called by thread 0
bool sim_probe_resume();         // called by thread 0 after a starved probe was unblocked
bool sim_probe_wait();           // called by thread 1: park until a probe is requested; false = shut down
void sim_probe_done();
void sim_probe_shutdown();
long sim_probe_spins();

// ------------------------------------------------------------ TSan (only in the tsan variant)
int  sim_race_reports();         // number of data-race reports in qlibc code so far
std::string sim_race_last();     // "file:function <-> file:function"
void sim_race_reset();
