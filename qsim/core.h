// qsim core: PRNG, plan/op representation, JSON, context shared by worlds and runners.
#pragma once
#include <cstdint>
#include <cstdio>
#include <cstdlib>
#include <cstring>
#include <string>
#include <vector>
#include <map>
#include <set>
#include <memory>
#include <functional>

typedef std::string Bytes;

// ---------------------------------------------------------------- PRNG
struct Rng {
    uint64_t s[4];
    static uint64_t splitmix(uint64_t &x) {
        uint64_t z = (x += 0x9e3779b97f4a7c15ULL);
        z = (z ^ (z >> 30)) * 0xbf58476d1ce4e5b9ULL;
        z = (z ^ (z >> 27)) * 0x94d049bb133111ebULL;
        return z ^ (z >> 31);
    }
    explicit Rng(uint64_t seed = 1) { reseed(seed); }
    void reseed(uint64_t seed) { for (int i = 0; i < 4; i++) s[i] = splitmix(seed); }
    static inline uint64_t rotl(uint64_t x, int k) { return (x << k) | (x >> (64 - k)); }
    uint64_t next() {
        const uint64_t r = rotl(s[1] * 5, 7) * 9, t = s[1] << 17;
        s[2] ^= s[0]; s[3] ^= s[1]; s[1] ^= s[2]; s[0] ^= s[3]; s[2] ^= t; s[3] = rotl(s[3], 45);
        return r;
    }
    uint32_t below(uint32_t n) { return n ? (uint32_t)((next() >> 11) % n) : 0; }
    int range(int lo, int hi) { return hi <= lo ? lo : lo + (int)below((uint32_t)(hi - lo + 1)); }
    bool chance(int num, int den) { return (int)below((uint32_t)den) < num; }
    template <class T> const T &pick(const std::vector<T> &v) { return v[below((uint32_t)v.size())]; }
};

uint64_t fnv1a(const void *p, size_t n, uint64_t h = 1469598103934665603ULL);
inline uint64_t fnv1a(const std::string &s, uint64_t h = 1469598103934665603ULL) { return fnv1a(s.data(), s.size(), h); }
uint64_t mix_seed(uint64_t base, const std::string &prop, const std::string &tier, uint64_t i);
std::string hexs(const Bytes &b, size_t maxbytes = 48);   // printable rendering for details
std::string hex64(uint64_t v);

// ---------------------------------------------------------------- JSON (minimal)
struct J {
    enum T { NUL, NUM, STR, ARR, OBJ, BOOL } t = NUL;
    long long n = 0;
    std::string s;
    std::vector<J> a;
    std::vector<std::pair<std::string, J>> o;
    J() {}
    static J num(long long v) { J j; j.t = NUM; j.n = v; return j; }
    static J str(const std::string &v) { J j; j.t = STR; j.s = v; return j; }
    static J arr() { J j; j.t = ARR; return j; }
    static J obj() { J j; j.t = OBJ; return j; }
    static J boolean(bool b) { J j; j.t = BOOL; j.n = b; return j; }
    J &set(const std::string &k, const J &v) { for (auto &kv : o) if (kv.first == k) { kv.second = v; return *this; } o.push_back({k, v}); return *this; }
    J &push(const J &v) { a.push_back(v); return *this; }
    const J *get(const std::string &k) const { for (auto &kv : o) if (kv.first == k) return &kv.second; return nullptr; }
    long long geti(const std::string &k, long long d = 0) const { const J *j = get(k); return j && (j->t == NUM || j->t == BOOL) ? j->n : d; }
    std::string gets(const std::string &k, const std::string &d = "") const { const J *j = get(k); return j && j->t == STR ? j->s : d; }
    std::string dump(int indent = -1, int lvl = 0) const;
    static bool parse(const std::string &text, J &out, std::string *err = nullptr);
};

// ---------------------------------------------------------------- plan
struct Op {
    int k = 0;                 // kind (index into the world's op-name table)
    int a = 0, b = 0, c = 0, d = 0;
    int fk = 0;                // fault: fail the fk-th allocation made inside this op (0 = none)
    int fm = 0;                // 1 = once, 2 = sticky (that one and all later ones inside this op)
    int h = 0;                 // 1 = the client holds the container's lock()/unlock() around this operation
};

struct Cfg {
    std::string world;
    std::map<std::string, long> p;
    long get(const char *k, long d = 0) const { auto it = p.find(k); return it == p.end() ? d : it->second; }
    void set(const char *k, long v) { p[k] = v; }
};

struct Plan {
    std::string prop, mode, variant;
    uint64_t seed = 0;
    Cfg cfg;
    std::vector<std::vector<Op>> clients;
    std::vector<int> sched;        // recorded scheduler decisions (thread ids; <0 => stall of thread -(x+1))
    // expectation (replay files)
    std::string exp_class, exp_oracle, exp_sig, exp_trace;
};

struct Result {
    bool fail = false;   // the call reported failure (false / NULL)
    Bytes s;             // canonical payload
    bool operator==(const Result &o) const { return fail == o.fail && s == o.s; }
    bool operator!=(const Result &o) const { return !(*this == o); }
    std::string show() const { return std::string(fail ? "FAIL:" : "ok:") + hexs(s, 64); }
};
inline Result R_ok(const Bytes &s = "") { Result r; r.s = s; return r; }
inline Result R_fail(const Bytes &s = "") { Result r; r.fail = true; r.s = s; return r; }

struct Violation {
    std::string cls, oracle, detail, opname;
    int client = 0, opidx = -1;
    std::string sig(const std::string &world) const { return world + "|" + cls + "|" + oracle + "|" + opname; }
};

struct Abort { };   // thrown by Ctx::fail to unwind harness frames

struct Stats {
    std::map<std::string, uint64_t> c;     // named counters / probes
    void add(const char *k, uint64_t n = 1) { c[k] += n; }
    void merge(const Stats &o) { for (auto &kv : o.c) c[kv.first] += kv.second; }
};

// Held copy returned by the SUT: must stay intact until released by the client.
struct Held { void *p; Bytes expect; const char *what; };

struct World;
struct Ctx {
    const Plan *plan = nullptr;
    std::string prop;
    // which oracle groups decide in this run
    bool o_result = false, o_struct = false, o_mem = false, o_alias = false, o_linz = false,
         o_lock = false, o_enomem = false, o_race = false;
    Stats st;
    bool failed = false;
    Violation v;
    std::vector<Violation> collateral;
    uint64_t trace = 1469598103934665603ULL;
    uint64_t trace_prefix = 0;      // trace hash before the operation in progress (a failing op may return stale memory: only the prefix must replay exactly)
    uint64_t mutations = 0;
    int cur_client = 0, cur_op = -1;
    int tgt_allocs = -1, ctor_allocs = 0;   // enumeration: allocations inside the target op / constructor
    std::string cur_opname;
    std::vector<Held> pool;
    bool verbose = false;
    std::string scratch;          // per-worker scratch directory (file layer)

    void tr(const std::string &s) { trace = fnv1a(s, trace); trace = fnv1a("\n", 1, trace); if (verbose) fprintf(stderr, "  | %s\n", s.c_str()); }
    // report a violation of oracle group 'oracle'; if that group decides, abort the run.
    void fail(const char *cls, const char *oracle, const std::string &detail);
    bool enabled(const char *oracle) const;
    void hold(void *p, const Bytes &expect, const char *what);
    void verify_pool(const char *when);      // alias oracle
    void release_pool();
};

// ---------------------------------------------------------------- world interface
struct Model {
    virtual ~Model() {}
    virtual Model *clone() const = 0;
    virtual Result apply(const Op &op) = 0;       // ideal result + state transition
    virtual std::string dump() const = 0;         // canonical observable contents
    virtual std::string full_state() const { return dump(); }   // everything that can influence a later result
    virtual uint64_t hash() const { return fnv1a(full_state()); }
};

struct GenState { long n = 0; long extra = 0; };   // generator's rough idea of the container size

struct World {
    Cfg cfg;
    virtual ~World() {}
    virtual const char *name() const = 0;
    virtual const std::vector<std::string> &opnames() const = 0;
    int opk(const char *n) const { auto &v = opnames(); for (size_t i = 0; i < v.size(); i++) if (v[i] == n) return (int)i; fprintf(stderr, "qsim: unknown op %s in world %s\n", n, name()); abort(); }
    // ---- generation
    virtual void gen_cfg(Rng &r, const std::string &prop, const std::string &mode, Cfg &c) = 0;
    virtual Op gen_op(Rng &r, const std::string &prop, const std::string &mode, GenState &g) = 0;
    virtual bool is_mutation(const Op &op) const = 0;
    // The call has no channel (or an ambiguous one: void, a count, a value that is also the failure value) to say whether it
    // completed or gave up under an allocation failure: the verdict then goes by the contents (completed XOR unchanged).
    virtual bool result_is_ambiguous(const Op &) const { return false; }
    virtual bool allocates(const Op &) const { return true; }
    // ---- execution
    virtual void init(const Cfg &c) { cfg = c; }         // derive universe etc. (deterministic from cfg)
    virtual Model *new_model() = 0;
    virtual bool sut_create(Ctx &x) = 0;                  // false when the constructor reported failure
    virtual Result sut_apply(const Op &op, Ctx &x) = 0;
    virtual std::string sut_dump(Ctx &x) = 0;             // API-only, no side effects on the container
    virtual void sut_struct(Ctx &x) {}                     // structural invariant (reports via x.fail)
    virtual void sut_destroy(Ctx &x) = 0;
    virtual void sut_abandon() = 0;                        // forget the SUT without touching it
    virtual void sut_probe(Ctx &) {}                       // C14: one cheap locked operation from another thread
    virtual void sut_force_unlock() {}                     // C14: container->unlock()
    virtual bool sut_user_lock() { return false; }         // container->lock() by the client (false: this world has no lock API)
    virtual void sut_prepare(Op &) {}                      // sequential modes: resolve placement-dependent arguments before the model sees the op
    virtual void *sut_mutex() { return nullptr; }
    virtual bool sut_sees_mutex() { return false; }        // true when this adapter can read the container's lock pointer (structure view)
    virtual std::string render(const Op &op) const;        // human readable op
};

World *make_world(const std::string &name);
std::vector<std::string> world_names();

// plan <-> JSON
J plan_to_json(const Plan &p, World &w);
bool plan_from_json(const J &j, Plan &p, std::string *err);

// ---------------------------------------------------------------- helpers for adapters
// exact-sized heap copy of caller data, scribbled and freed when it goes out of scope
// The buffer ends exactly at the end of its heap block (an over-read of one byte is visible to ASan) and starts
// g_caller_misalign bytes after its beginning: keys and values are byte strings and may live at any address.
extern int g_caller_misalign;
struct CallerBuf {
    unsigned char *base, *p; size_t n;
    explicit CallerBuf(const Bytes &b) : n(b.size()) {
        size_t off = (size_t)(g_caller_misalign & 7);
        base = (unsigned char *)malloc(off + (n ? n : 1));
        p = base + off;
        if (n) memcpy(p, b.data(), n);
    }
    ~CallerBuf() { if (base) { memset(p, 0xA5, n ? n : 1); free(base); } }
    CallerBuf(const CallerBuf &) = delete;
};
Bytes gen_value(int vseed, int vlen, int klass);   // deterministic value bytes
