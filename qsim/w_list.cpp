// World: qlist and its wrappers qqueue, qstack, qgrow (C09; container for C11-C15)
#include "wutil.h"
#ifndef QSIM_STRUCT
#define QSIM_STRUCT 1      // 0: this adapter is built without reading any private struct field (API-level oracles only)
#endif
#include <malloc.h>
#include <algorithm>
#include <deque>
extern "C" {
#include "containers/qlist.h"
#include "containers/qqueue.h"
#include "containers/qstack.h"
#include "containers/qgrow.h"
}

enum { L_ADD, L_GET, L_POP, L_REMOVE, L_REVERSE, L_CLEAR, L_SETSIZE, L_SIZE, L_DATASIZE, L_TOARRAY, L_TOSTRING, L_WALK, L_LOCKEDWALK, L_DEBUG };
static const std::vector<std::string> L_NAMES = {"add", "get", "pop", "remove", "reverse", "clear", "setsize", "size", "datasize",
                                                 "toarray", "tostring", "walk", "lockedwalk", "debug"};
enum { K_LIST = 0, K_QUEUE = 1, K_STACK = 2, K_GROW = 3 };
enum { NULLDATA = 0x200, NEWMEM = 0x40 };

struct ListWorld;
struct ListModel : Model {
    const ListWorld *w; std::deque<Bytes> q; size_t max = 0;
    explicit ListModel(const ListWorld *w_) : w(w_) {}
    Model *clone() const override { return new ListModel(*this); }
    Result apply(const Op &op) override;
    std::string dump() const override {
        size_t sum = 0; for (auto &e : q) sum += e.size();
        Bytes o = "n=" + num((long long)q.size()) + ";sum=" + num((long long)sum) + ";";
        for (auto &e : q) enc(o, e);
        return o;
    }
};

struct ListWorld : World {
    int kind = 0; bool threadsafe = false, mt = false;
    qlist_t *l = nullptr; qqueue_t *qq = nullptr; qstack_t *qs = nullptr; qgrow_t *qg = nullptr;

    const char *name() const override { return "list"; }
    const std::vector<std::string> &opnames() const override { return L_NAMES; }

    void gen_cfg(Rng &r, const std::string &prop, const std::string &mode, Cfg &c) override {
        c.world = "list";
        bool mtm = mode == "threads";
        int k = wpick(r, {{50, K_LIST}, {18, K_QUEUE}, {18, K_STACK}, {14, K_GROW}});
        if (mtm && k == K_GROW) k = K_LIST;
#if !QSIM_STRUCT
        k = K_LIST;
#endif
        c.set("kind", k);
        c.set("ts", (mtm || mode == "lockbal") ? 1 : (r.chance(1, 5) ? 1 : 0));
        c.set("mt", mtm ? 1 : 0);
        c.set("max0", r.chance(1, 3) ? r.range(1, 6) : 0);
        c.set("nops", r.range(5, r.chance(1, 4) ? 300 : 60));
        (void)prop;
    }
    Op gen_op(Rng &r, const std::string &prop, const std::string &mode, GenState &) override {
        Op op; int k = (int)cfg.get("kind"); bool mtm = mode == "threads";
        bool c14 = prop == "C14";
        if (k == K_LIST) {
            if (mtm) op.k = wpick(r, {{35, L_ADD}, {15, L_GET}, {25, L_POP}, {8, L_REMOVE}, {3, L_CLEAR}, {6, L_TOARRAY}, {4, L_TOSTRING}, {4, L_LOCKEDWALK}});
            else op.k = wpick(r, {{34, L_ADD}, {14, L_GET}, {12, L_POP}, {10, L_REMOVE}, {4, L_REVERSE}, {1, L_CLEAR}, {4, L_SETSIZE}, {4, L_SIZE}, {3, L_DATASIZE},
                                  {5, L_TOARRAY}, {5, L_TOSTRING}, {4, L_WALK}, {c14 ? 3 : 0, L_DEBUG}, {c14 ? 5 : 0, L_LOCKEDWALK}});
        } else if (k == K_GROW) {
            op.k = wpick(r, {{50, L_ADD}, {8, L_SIZE}, {8, L_DATASIZE}, {14, L_TOARRAY}, {14, L_TOSTRING}, {3, L_CLEAR}, {c14 ? 3 : 0, L_DEBUG}});
        } else {
            if (mtm) op.k = wpick(r, {{45, L_ADD}, {15, L_GET}, {35, L_POP}, {5, L_CLEAR}});
            else op.k = wpick(r, {{40, L_ADD}, {18, L_GET}, {28, L_POP}, {4, L_SETSIZE}, {6, L_SIZE}, {2, L_CLEAR}, {c14 ? 3 : 0, L_DEBUG}});
        }
        op.a = (int)r.below(64);
        switch (op.k) {
        case L_ADD: {
            int api = (int)r.below(3);
            int klass = (int)r.below(6);
            if ((k != K_LIST && api >= 1) || mtm) klass = r.chance(1, 2) ? 1 : 5;
            if (mtm && k != K_LIST) api = 0;
            op.b = (int)r.below(1 << 20); op.c = mtm ? r.range(1, 10) : gen_vlen(r, 120);
            if ((klass == 1 || klass == 5) && op.c < 2) op.c = 2;
            if (k == K_GROW && api == 2 && r.chance(1, 3)) op.c = gen_fmt_len(r) + 1;     // addstrf: the formatted piece has c-1 characters
            op.d = api | (klass << 3);
            if (k != K_LIST && api == 2 && k != K_GROW) op.b = (int)r.next();
            break;
        }
        case L_GET: case L_POP: {
            int api = k == K_LIST ? (int)r.below(3) : (k == K_GROW ? 0 : (int)r.below(4));
            if (mtm && k != K_LIST) api = r.chance(1, 2) ? 0 : 3;
            op.d = api | ((mtm || r.chance(1, 2)) ? NEWMEM : 0);
            break;
        }
        case L_REMOVE: op.d = (int)r.below(3); break;
        case L_WALK: case L_LOCKEDWALK: op.d = r.chance(1, 2) ? NEWMEM : 0; break;
        default: break;
        }
        if (c14 && op.k == L_ADD && r.chance(1, 10)) op.d |= NULLDATA;
        return op;
    }
    bool result_is_ambiguous(const Op &op) const override { return op.k == L_REVERSE || op.k == L_CLEAR || (op.k == L_POP && (op.d & 7) == 2)    /* popint: 0 is a value and the failure value */; }
    bool is_mutation(const Op &op) const override { return op.k == L_ADD || op.k == L_POP || op.k == L_REMOVE || op.k == L_REVERSE || op.k == L_CLEAR || op.k == L_SETSIZE; }

    void init(const Cfg &c) override { cfg = c; kind = (int)c.get("kind"); threadsafe = c.get("ts") != 0; mt = c.get("mt") != 0; }
    Model *new_model() override { auto *m = new ListModel(this); m->max = (kind == K_GROW) ? 0 : (size_t)cfg.get("max0"); return m; }

    // element bytes the call stores
    Bytes value(const Op &op) const {
        int api = op.d & 7, klass = (op.d >> 3) & 7;
        if (kind != K_LIST && kind != K_GROW && api == 2) { int64_t n = int_value(op.b, op.c); return Bytes((const char *)&n, sizeof n); }
        Bytes v = gen_value(op.b, op.c, klass);
        if (kind == K_GROW && api >= 1) return Bytes(v.c_str());                    // addstr/addstrf: without the terminator
        if ((kind == K_QUEUE || kind == K_STACK) && api == 1) return Bytes(v.c_str()) + Bytes(1, '\0');
        return v;
    }
    // index relative to the current length (sequential modes); a fixed small range when several threads run, where the length is not the caller's to read
    static int index_of(int a, size_t n, bool mt) {
        if (mt) return (a % 7) - 3;
        if (a >= 60 && a < 64) { static const int far[4] = {2147483647, -2147483647 - 1, -2147483647, 2147483646}; return far[a - 60]; }   // the ends of int: always out of range
        return (int)(a % (int)(2 * n + 5)) - (int)(n + 2);
    }

#if QSIM_STRUCT
    qlist_t *base() const { return kind == K_LIST ? l : kind == K_QUEUE ? qq->list : kind == K_STACK ? qs->list : qg->list; }
#else
    qlist_t *base() const { return l; }
#endif

    bool sut_create(Ctx &x) override {
        int opt = threadsafe ? QLIST_THREADSAFE : 0;
        l = nullptr; qq = nullptr; qs = nullptr; qg = nullptr;
        InSut s;
        switch (kind) {
        case K_LIST: l = qlist(opt); if (l && cfg.get("max0")) l->setsize(l, (size_t)cfg.get("max0")); break;
        case K_QUEUE: qq = qqueue(opt); if (qq && cfg.get("max0")) qq->setsize(qq, (size_t)cfg.get("max0")); break;
        case K_STACK: qs = qstack(opt); if (qs && cfg.get("max0")) qs->setsize(qs, (size_t)cfg.get("max0")); break;
        case K_GROW: qg = qgrow(opt); break;
        }
        static const char *kn[] = {"cfg.list", "cfg.queue", "cfg.stack", "cfg.grow"};
        x.st.add(kn[kind]);
        return l || qq || qs || qg;
    }
    void sut_destroy(Ctx &) override {
        InSut s;
        if (l) l->free(l); if (qq) qq->free(qq); if (qs) qs->free(qs); if (qg) qg->free(qg);
        l = nullptr; qq = nullptr; qs = nullptr; qg = nullptr;
    }
    void sut_abandon() override { l = nullptr; qq = nullptr; qs = nullptr; qg = nullptr; }
#if QSIM_STRUCT
    void *sut_mutex() override { return base() ? base()->qmutex : nullptr; }
    bool sut_sees_mutex() override { return true; }
#endif
    bool sut_user_lock() override { InSutLock s; base()->lock(base()); return true; }
    void sut_force_unlock() override { InSutLock s; base()->unlock(base()); }
    void sut_probe(Ctx &) override { InSut s; qlist_t *b = base(); b->getat(b, 0, nullptr, false); }

    Result take(void *p, size_t sz, bool held, Ctx &x, const char *what) {
        if (!p) return R_fail();
        Bytes got((const char *)p, sz);
        if (held) x.hold(p, got, what);
        return R_ok(encs(got));
    }

    Result sut_apply(const Op &op, Ctx &x) override {
        qlist_t *b = base();
        size_t n = mt ? 0 : b->size(b);      // size() reads the length without the lock: not for thread programs (indexes are absolute there)
        int idx = index_of(op.a, n, mt);
        int api = op.d & 7;
        switch (op.k) {
        case L_ADD: {
            Bytes v = value(op);
            CallerBuf vb(v);
            Bytes z = v + Bytes(1, '\0'); CallerBuf zb(z);
            const void *vp = (op.d & NULLDATA) ? nullptr : vb.p;
            bool ok = false;
            InSut s;
            if (kind == K_LIST) ok = api == 0 ? l->addfirst(l, vp, vb.n) : api == 1 ? l->addlast(l, vp, vb.n) : l->addat(l, idx, vp, vb.n);
            else if (kind == K_QUEUE) ok = api == 0 ? qq->push(qq, vp, vb.n) : api == 1 ? qq->pushstr(qq, (const char *)vp) : qq->pushint(qq, int_value(op.b, op.c));
            else if (kind == K_STACK) ok = api == 0 ? qs->push(qs, vp, vb.n) : api == 1 ? qs->pushstr(qs, (const char *)vp) : qs->pushint(qs, int_value(op.b, op.c));
            else {
                if (api == 0 || !vp) ok = qg->add(qg, vp, vb.n);
                else ok = api == 1 ? qg->addstr(qg, (const char *)zb.p) : qg->addstrf(qg, "%s", (const char *)zb.p);
            }
            return ok ? R_ok() : R_fail();
        }
        case L_GET: case L_POP: {
            bool pop = op.k == L_POP;
            bool newmem = pop || (op.d & NEWMEM);
            size_t sz = (size_t)-1; void *p = nullptr;
            if (kind == K_LIST) {
                InSut s;
                if (!pop) p = api == 0 ? l->getfirst(l, &sz, newmem) : api == 1 ? l->getlast(l, &sz, newmem) : l->getat(l, idx, &sz, newmem);
                else p = api == 0 ? l->popfirst(l, &sz) : api == 1 ? l->poplast(l, &sz) : l->popat(l, idx, &sz);
                sim_in_sut(false);
                return take(p, sz, newmem, x, pop ? "list.pop" : "list.get(newmem)");
            }
            if (kind == K_GROW) return R_ok();
            // queue / stack: str and int accessors only make sense on matching front elements
            size_t fsz = 0; void *fp = nullptr;
            if (!mt) { InSut s; fp = b->getat(b, 0, &fsz, false); }
            int a2 = api;
            if (api == 1 && !(fp && fsz >= 1 && ((const char *)fp)[fsz - 1] == '\0')) a2 = 0;   // documented only for elements pushed with pushstr()
            if (api == 2 && !(fp && fsz == sizeof(int64_t)) && fp) a2 = 0;
            if (a2 == 2) {
                int64_t v;
                { InSut s; v = kind == K_QUEUE ? (pop ? qq->popint(qq) : qq->getint(qq)) : (pop ? qs->popint(qs) : qs->getint(qs)); }
                if (v == 0 && sim_fault_fired() > 0) return R_fail("int:0");    // 0 is the documented failure value of popint/getint
                return R_ok("int:" + num((long long)v));
            }
            if (a2 == 1) {
                char *sp;
                { InSut s; sp = kind == K_QUEUE ? (pop ? qq->popstr(qq) : qq->getstr(qq)) : (pop ? qs->popstr(qs) : qs->getstr(qs)); }
                return take(sp, fsz, true, x, "queue/stack.popstr/getstr");
            }
            {
                InSut s;
                if (a2 == 0) p = kind == K_QUEUE ? (pop ? qq->pop(qq, &sz) : qq->get(qq, &sz, newmem)) : (pop ? qs->pop(qs, &sz) : qs->get(qs, &sz, newmem));
                else p = kind == K_QUEUE ? (pop ? qq->popat(qq, idx, &sz) : qq->getat(qq, idx, &sz, newmem)) : (pop ? qs->popat(qs, idx, &sz) : qs->getat(qs, idx, &sz, newmem));
            }
            return take(p, sz, newmem, x, pop ? "queue/stack.pop" : "queue/stack.get(newmem)");
        }
        case L_REMOVE: {
            bool ok; InSut s;
            ok = api == 0 ? l->removefirst(l) : api == 1 ? l->removelast(l) : l->removeat(l, idx);
            return ok ? R_ok() : R_fail();
        }
        case L_REVERSE: { InSut s; l->reverse(l); return R_ok(); }
        case L_CLEAR: { InSut s; if (kind == K_LIST) l->clear(l); else if (kind == K_QUEUE) qq->clear(qq); else if (kind == K_STACK) qs->clear(qs); else qg->clear(qg); return R_ok(); }
        case L_SETSIZE: {
            size_t nm = (size_t)(op.a % (int)(n + 4)); size_t old;
            { InSut s; old = kind == K_LIST ? l->setsize(l, nm) : kind == K_QUEUE ? qq->setsize(qq, nm) : qs->setsize(qs, nm); }
            return R_ok(num((long long)old));
        }
        case L_SIZE: { size_t v; { InSut s; v = kind == K_LIST ? l->size(l) : kind == K_QUEUE ? qq->size(qq) : kind == K_STACK ? qs->size(qs) : qg->size(qg); } return R_ok(num((long long)v)); }
        case L_DATASIZE: { size_t v; { InSut s; v = kind == K_GROW ? qg->datasize(qg) : l->datasize(l); } return R_ok(num((long long)v)); }
        case L_TOARRAY: {
            size_t sz = (size_t)-1; void *p;
            { InSut s; p = kind == K_GROW ? qg->toarray(qg, &sz) : l->toarray(l, &sz); }
            if (!p) return R_fail(num((long long)sz));     // "size: the total size is stored" - also when there is nothing to return
            return take(p, sz, true, x, "toarray");
        }
        case L_TOSTRING: {
            // expected length from the list's own elements (a C-string reader cannot know it when NULs are embedded)
            // expected length from the list's own elements (a C-string reader cannot know it when NULs are embedded): the
            // pieces in order, each without one trailing NUL, as C09 quantifies over contents "with and without trailing or
            // embedded NUL bytes"
            size_t len = 0;
            if (!mt) {
                Bookkeeping bk;
                for (size_t i = 0; i < n; i++) { size_t es = 0; void *ep; { InSut s; ep = b->getat(b, (int)i, &es, false); } if (ep && es) len += es - ((((char *)ep)[es - 1] == 0) ? 1 : 0); }
            }
            char *p;
            { InSut s; p = kind == K_GROW ? qg->tostring(qg) : l->tostring(l); }
            if (!p) return R_fail();
            if (mt) len = strlen(p);    // concurrent programs only add NUL-free elements
            // never read beyond the block the library returned: a shorter result is a wrong result, not a harness crash
            size_t have = malloc_usable_size(p);
            return take(p, std::min(len + 1, have), true, x, "tostring");
        }
        case L_WALK: case L_LOCKEDWALK: {
            bool newmem = op.d & NEWMEM;
            if (op.k == L_LOCKEDWALK) { InSutLock s; l->lock(l); }
            qlist_obj_t o; memset(&o, 0, sizeof o);
            Bytes out; size_t cnt = 0, guard = b->size(b) * 2 + 8; bool failed = false; int fired_seen = sim_fault_fired(), retries = 0;
            for (;;) {
                void *d0 = o.data;
                bool more; { InSut s; more = l->getnext(l, &o, newmem); }
                if (!more && sim_fault_fired() > fired_seen) check_cursor_ptr(x, "data", d0, o.data);
                if (!more && newmem && sim_fault_fired() > fired_seen && retries < 1) { fired_seen = sim_fault_fired(); retries++; failed = true; x.st.add("probe.walk_step_retried_after_enomem"); continue; }   // a step reported failure: so does the walk (the retry only probes that the cursor is still safe to use)
                if (!more) { if (sim_fault_fired() > fired_seen) failed = true; break; }
                Bytes e((const char *)o.data, o.size);
                if (newmem) x.hold(o.data, e, "list.getnext(newmem)");
                enc(out, e);
                if (++cnt > guard) { if (op.k == L_LOCKEDWALK) { InSutLock s; l->unlock(l); } x.fail("walk-mismatch", "result", "walk does not end"); }
            }
            if (op.k == L_LOCKEDWALK) { InSutLock s; l->unlock(l); }
            return failed ? R_fail(out) : R_ok(out + "$");
        }
        case L_DEBUG: {
            FILE *f = fopen("/dev/null", "w"); bool ok;
            { InSut s; ok = kind == K_LIST ? l->debug(l, f) : kind == K_QUEUE ? qq->debug(qq, f) : kind == K_STACK ? qs->debug(qs, f) : qg->debug(qg, f); }
            fclose(f);
            return ok ? R_ok() : R_fail();
        }
        }
        return R_ok();
    }

    std::string sut_dump(Ctx &) override {
        qlist_t *b = base();
        size_t n, sum;
        { InSut s; n = b->size(b); sum = b->datasize(b); }
        Bytes o = "n=" + num((long long)n) + ";sum=" + num((long long)sum) + ";";
        for (size_t i = 0; i < n; i++) {
            size_t sz = 0; void *p;
            { InSut s; p = b->getat(b, (int)i, &sz, false); }
            if (p) enc(o, p, sz); else o += "<missing>";
        }
        return o;
    }

    void sut_struct(Ctx &x) override {
#if !QSIM_STRUCT
        (void)x; return;
#else
        qlist_t *b = base();
        if (!b) return;
        size_t cnt = 0, sum = 0; qlist_obj_t *prev = nullptr;
        for (qlist_obj_t *o = b->first; o; prev = o, o = o->next) {
            if (o->prev != prev) x.fail("structure", "struct", "back link of element " + num((long long)cnt) + " is wrong");
            cnt++; sum += o->size;
            if (cnt > b->num + 4) x.fail("structure", "struct", "forward chain longer than size() (cycle)");
        }
        if (b->last != prev) x.fail("structure", "struct", "last pointer does not name the final element");
        if (cnt != b->num) x.fail("structure", "struct", "chain has " + num((long long)cnt) + " elements, size() says " + num((long long)b->num));
        if (sum != b->datasum) x.fail("structure", "struct", "byte total " + num((long long)b->datasum) + " differs from the elements' " + num((long long)sum));
        x.st.add("struct.checks");
#endif
    }

    std::string render(const Op &op) const override {
        char b[200]; static const char *kn[] = {"list", "queue", "stack", "grow"};
        switch (op.k) {
        case L_ADD: snprintf(b, sizeof b, "%s add api%d index-spec %d value(seed %d,len %d,class %d)%s", kn[kind], op.d & 7, op.a, op.b, op.c, (op.d >> 3) & 7, (op.d & NULLDATA) ? " NULL-data" : ""); break;
        case L_GET: case L_POP: case L_REMOVE: snprintf(b, sizeof b, "%s %s api%d index-spec %d newmem=%d", kn[kind], L_NAMES[op.k].c_str(), op.d & 7, op.a, (op.d & NEWMEM) ? 1 : 0); break;
        default: snprintf(b, sizeof b, "%s %s(%d)", kn[kind], L_NAMES[op.k].c_str(), op.a); break;
        }
        return b;
    }
};

Result ListModel::apply(const Op &op) {
    size_t n = q.size();
    int idx = ListWorld::index_of(op.a, n, w->mt);
    int api = op.d & 7; int kind = w->kind;
    switch (op.k) {
    case L_ADD: {
        if ((op.d & NULLDATA) && !((kind == K_QUEUE || kind == K_STACK) && api == 2)) return R_fail();     // pushint takes no data pointer
        Bytes v = w->value(op);
        if (v.empty()) return R_fail();
        if (max > 0 && n >= max) return R_fail();
        long pos;
        if (kind == K_LIST) {
            if (api == 0) pos = 0; else if (api == 1) pos = (long)n;
            else { pos = idx; if (pos < 0) pos = (long)n + pos + 1; if (pos < 0 || pos > (long)n) return R_fail(); }
        } else if (kind == K_STACK) pos = 0; else pos = (long)n;
        q.insert(q.begin() + pos, v);
        return R_ok();
    }
    case L_GET: case L_POP: {
        bool pop = op.k == L_POP;
        if (kind == K_GROW) return R_ok();
        long pos; int a2 = api;
        if (kind == K_LIST) {
            if (api == 0) pos = 0; else if (api == 1) pos = (long)n - 1;
            else { pos = idx; if (pos < 0) pos = (long)n + pos; }
        } else {
            if (api == 1 && !(n > 0 && q[0].size() >= 1 && q[0][q[0].size() - 1] == '\0')) a2 = 0;
            if (api == 2 && n > 0 && q[0].size() != sizeof(int64_t)) a2 = 0;
            if (a2 == 3) { pos = idx; if (pos < 0) pos = (long)n + pos; } else pos = 0;
            if (a2 == 2) {
                int64_t v = 0;
                if (n > 0) { memcpy(&v, q[0].data(), sizeof v); if (pop) q.pop_front(); }
                return R_ok("int:" + num((long long)v));
            }
        }
        if (pos < 0 || pos >= (long)n) return R_fail();
        Bytes v = q[pos];
        if (pop) q.erase(q.begin() + pos);
        return R_ok(encs(v));
    }
    case L_REMOVE: {
        long pos = api == 0 ? 0 : api == 1 ? (long)n - 1 : (idx < 0 ? (long)n + idx : idx);
        if (pos < 0 || pos >= (long)n) return R_fail();
        q.erase(q.begin() + pos); return R_ok();
    }
    case L_REVERSE: std::reverse(q.begin(), q.end()); return R_ok();
    case L_CLEAR: q.clear(); return R_ok();
    case L_SETSIZE: { size_t old = max; max = (size_t)(op.a % (int)(n + 4)); return R_ok(num((long long)old)); }
    case L_SIZE: return R_ok(num((long long)n));
    case L_DATASIZE: { size_t s = 0; for (auto &e : q) s += e.size(); return R_ok(num((long long)s)); }
    case L_TOARRAY: {
        if (n == 0) return R_fail("0");
        Bytes all; for (auto &e : q) all += e;
        return R_ok(encs(all));
    }
    case L_TOSTRING: {
        if (n == 0) return R_fail();
        Bytes all; for (auto &e : q) all += (e[e.size() - 1] == '\0') ? e.substr(0, e.size() - 1) : e;
        all += '\0';
        return R_ok(encs(all));
    }
    case L_WALK: case L_LOCKEDWALK: { Bytes o; for (auto &e : q) enc(o, e); return R_ok(o + "$"); }
    case L_DEBUG: return R_ok();
    }
    return R_ok();
}

World *make_list() { return new ListWorld(); }
