// helpers shared by world adapters
#pragma once
#include "core.h"
#include "sim.h"
#include <errno.h>
extern "C" uint32_t qhashmurmur3_32(const void *data, size_t nbytes);

// length-prefixed record, so that concatenations are unambiguous
inline void enc(Bytes &out, const void *p, size_t n) {
    char h[12]; int l = snprintf(h, sizeof h, "<%zu>", n);
    out.append(h, (size_t)l);
    if (n) out.append((const char *)p, n);
}
inline void enc(Bytes &out, const Bytes &b) { enc(out, b.data(), b.size()); }
inline Bytes encs(const Bytes &b) { Bytes o; enc(o, b); return o; }
inline Bytes num(long long v) { return std::to_string(v); }

// weights-based choice: pairs of (weight, value)
inline int wpick(Rng &r, std::initializer_list<std::pair<int, int>> l) {
    int tot = 0; for (auto &p : l) tot += p.first;
    int x = (int)r.below((uint32_t)tot);
    for (auto &p : l) { if (x < p.first) return p.second; x -= p.first; }
    return l.begin()->second;
}

// Value descriptor packing in Op fields: b = vseed, c = vlen, klass in bits of d (world specific).
// value-length distribution biased towards boundaries
// integer argument of the putint/pushint APIs: mostly 32-bit values, every fifth one from the corners of int64_t
inline int64_t int_value(int b, int c) {
    static const int64_t corners[8] = {INT64_MIN, INT64_MAX, INT64_MIN + 1, -1000000000000000000LL, 1000000000000000000LL, 4294967296LL, -4294967297LL, 1234567890123456789LL};
    if (c % 5 == 0) return corners[((unsigned)b) % 8];
    return (int64_t)b;
}
// lengths around the formatting buffer sizes of the printf-style APIs (1024 * 2^k)
inline int gen_fmt_len(Rng &r) { return r.pick(std::vector<int>{1022, 1023, 1024, 1025, 1026, 2047, 2048, 2049, 4096, 4097}); }
inline int gen_vlen(Rng &r, int maxlen) {
    switch (r.below(10)) {
    case 0: return 1;
    case 1: return 2;
    case 2: return r.range(1, 8);
    case 3: return r.range(8, 40);
    case 4: return maxlen;
    default: return r.range(1, maxlen);
    }
}

// pairs of distinct keys with the same full 32-bit hash, found once per process by a birthday search with the library's own
// hash function (nothing hard-coded: if the hash changes the pairs change with it)
inline const std::vector<std::pair<Bytes, Bytes>> &collision_pairs() {
    static std::vector<std::pair<Bytes, Bytes>> pairs;
    static bool done = false;
    if (done) return pairs;
    done = true;
    std::map<uint32_t, uint32_t> seen;
    for (uint32_t i = 0; i < 400000 && pairs.size() < 6; i++) {
        char b[16]; int n = snprintf(b, sizeof b, "c%u", i);
        uint32_t hsh = qhashmurmur3_32(b, (size_t)n);
        auto it = seen.find(hsh);
        if (it != seen.end()) { char o[16]; snprintf(o, sizeof o, "c%u", it->second); pairs.push_back({Bytes(o), Bytes(b)}); }
        else seen[hsh] = i;
    }
    return pairs;
}

// After a walk step that failed under an injected allocation failure: a pointer the call stored in the caller's cursor must
// be a live block. A freed copy left behind is a dangling pointer handed to the caller (who releases the copies of a
// copying walk: freed twice) and, where the library reads the cursor again, garbage it feeds itself.
static inline void check_cursor_ptr(Ctx &x, const char *what, const void *before, const void *after) {
    if (after && after != before && !sim_ledger_has(after))
        x.fail("dangling-cursor", x.o_enomem ? "enomem" : "mem", std::string("after a step that failed under an allocation fault the caller's cursor holds a freed pointer in ") + what);
}

