#pragma once
#include "core.h"
#include "sim.h"

struct Profile {
    std::string prop;
    std::vector<std::string> worlds;
    std::vector<std::string> modes;     // seq | threads | enum | lockbal | multi
};
Profile profile_for(const std::string &prop);
void set_oracles(Ctx &x, const std::string &prop);

struct RunOut {
    bool failed = false, truncated = false, known_skip = false;
    Violation v;
    std::vector<Violation> collateral;
    uint64_t trace = 0;
    Stats st;
    uint64_t nontrivial_hash = 0;     // 0 = trivial run
    std::vector<int> sched;           // decisions actually taken (threads)
    uint64_t cases = 0;               // enumeration: number of derived fault cases executed
    Plan failing;                     // the concrete (derived) plan that failed
};

Plan generate_plan(const std::string &prop, const std::string &tier, uint64_t base_seed, uint64_t index, const std::string &variant);
void execute_plan(const Plan &p, RunOut &out, bool verbose, const std::string &scratch, std::function<void(int, int)> on_case = nullptr);

// linearizability
struct HistOp { int client, idx; Op op; uint64_t inv, res; Result got; };
bool linearizable_from(Model &start, const std::vector<HistOp> &h, const std::string &final_dump, std::string *why, uint64_t *explored);
