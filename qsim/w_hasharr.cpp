// World: qhasharr (C06, C07; container for C11, C12, C15)
#include "wutil.h"
#ifndef QSIM_STRUCT
#define QSIM_STRUCT 1      // 0: this adapter is built without reading the slot layout (API-level oracles, guards and image byte-identity only)
#endif
#include <algorithm>
extern "C" {
#include "containers/qhasharr.h"
#include "utilities/qhash.h"
}
#ifdef QSIM_ASAN
extern "C" void __asan_poison_memory_region(void const volatile *addr, size_t size);
extern "C" void __asan_unpoison_memory_region(void const volatile *addr, size_t size);
#endif

enum { HA_PUT, HA_GET, HA_REMOVE, HA_CLEAR, HA_SIZE, HA_WALK, HA_DEBUG, HA_REATTACH, HA_SECOND, HA_RELOCATE, HA_TINYCTOR };
static const std::vector<std::string> HA_NAMES = {"put", "get", "remove", "clear", "size", "walk", "debug", "reattach", "second_handle", "relocate", "construct_on_too_small_region"};
static const size_t GUARD = 64;
static const int SLOT_DATA = Q_HASHARR_DATASIZE;
#if QSIM_STRUCT
static const int EXT_DATA = (int)sizeof(((qhasharr_slot_t *)0)->data.ext.data);
#else
// payload of a value extension block = slot size minus its 16 bytes of bookkeeping, from the documented size formula
static const int EXT_DATA = (int)(qhasharr_calculate_memsize(2) - qhasharr_calculate_memsize(1)) - 16 - 2;
#endif

struct HaWorld;
struct HaModel : Model {
    const HaWorld *w; std::map<Bytes, Bytes> m; int maxslots = 0;
    explicit HaModel(const HaWorld *w_) : w(w_) {}
    Model *clone() const override { return new HaModel(*this); }
    static int cost(size_t len) { return 1 + (len > (size_t)SLOT_DATA ? (int)((len - SLOT_DATA + EXT_DATA - 1) / EXT_DATA) : 0); }
    int used() const { int u = 0; for (auto &kv : m) u += cost(kv.second.size()); return u; }
    Result apply(const Op &op) override;
    std::string dump() const override {
        Bytes o = "n=" + num((long long)m.size()) + ",max=" + num(maxslots) + ",used=" + num(used()) + ";";
        for (auto &kv : m) { enc(o, kv.first); enc(o, kv.second); }
        return o;
    }
};

struct Inst {
    unsigned char *arena = nullptr; size_t off = 0; size_t memsize = 0;
    qhasharr_t *h[2] = {nullptr, nullptr}; int cur = 0;
    unsigned char *mem() const { return arena + GUARD + off; }
    qhasharr_t *tbl() const { return h[cur]; }
};

struct HaWorld : World {
    std::vector<Bytes> keys; int maxslots = 0; bool multi = false, dual = false;
    Inst in[2]; int ninst = 1;

    const char *name() const override { return "hasharr"; }
    const std::vector<std::string> &opnames() const override { return HA_NAMES; }

    void gen_cfg(Rng &r, const std::string &prop, const std::string &mode, Cfg &c) override {
        c.world = "hasharr";
        c.set("max", r.chance(1, 2) ? r.range(2, 8) : r.range(2, 40));
        c.set("U", r.pick(std::vector<int>{3, 4, 6, 8, 12, 16}));
        c.set("useed", (long)r.below(1000000));
        c.set("multi", prop == "C07" ? 1 : (prop == "C06" ? 0 : r.chance(1, 3)));
        c.set("dual", prop == "C07" ? 1 : 0);
        c.set("slack", r.chance(1, 3) ? r.range(1, 83) : 0);     // the region is this many bytes larger than the slots need (not enough for one more slot)
        c.set("misalign", (prop == "C07" || prop == "C11") && r.chance(1, 3) ? 1 : 0);   // relocation targets include addresses that are not multiples of 4
        c.set("nops", r.range(5, r.chance(1, 4) ? 300 : 70));
        (void)mode;
    }
    static int gen_hvlen(Rng &r) {
        switch (r.below(8)) {
        case 0: return r.range(1, 31);
        case 1: return 32 + r.range(-1, 1);
        case 2: { int j = r.range(1, 4); return 32 + EXT_DATA * j + r.range(-1, 1); }
        case 3: return r.range(33, 200);
        case 4: return r.range(200, 700);
        default: return r.range(1, 100);
        }
    }
    Op gen_op(Rng &r, const std::string &prop, const std::string &mode, GenState &) override {
        Op op; int Uc = (int)cfg.get("U"); bool m = cfg.get("multi") != 0;
        op.k = wpick(r, {{46, HA_PUT}, {16, HA_GET}, {20, HA_REMOVE}, {1, HA_CLEAR}, {5, HA_SIZE}, {6, HA_WALK}, {prop == "C11" ? 1 : 0, HA_DEBUG},
                         {m ? 4 : 0, HA_REATTACH}, {m ? 4 : 0, HA_SECOND}, {m ? 5 : 0, HA_RELOCATE}, {(prop == "C07" || prop == "C11") ? 2 : 0, HA_TINYCTOR}});
        op.a = (int)r.below((uint32_t)Uc);
        switch (op.k) {
        case HA_PUT: { int api = (int)r.below(4); int klass = api >= 2 ? (r.chance(1, 2) ? 1 : 5) : (int)r.below(6); op.b = (int)r.below(1 << 20); op.c = gen_hvlen(r); if (klass == 1 || klass == 5) op.c = std::max(2, op.c); op.d = api | (klass << 2);
            if (api == 3 && cfg.get("max") >= 20 && r.chance(1, 3)) op.c = r.pick(std::vector<int>{1023, 1024, 1025, 1026});     // formatting buffer boundary
            break; }
        case HA_GET: op.d = (int)r.below(3); break;
        case HA_REMOVE: op.d = (int)r.below(3); if (r.chance(1, 5)) { op.d = 3; op.b = r.chance(1, 8) ? -r.range(1, 5) : (int)r.below(64); }
#if !QSIM_STRUCT
            op.d &= 1;
#endif
            break;
        case HA_RELOCATE: op.a = (int)r.below(16); break;
        case HA_TINYCTOR: op.a = r.range(1, 95); break;
        default: break;
        }
        (void)mode;
        return op;
    }
    bool result_is_ambiguous(const Op &op) const override { return op.k == HA_CLEAR; }
    bool is_mutation(const Op &op) const override { return op.k == HA_PUT || op.k == HA_REMOVE || op.k == HA_CLEAR; }

    void init(const Cfg &c) override {
        cfg = c; maxslots = (int)c.get("max", 4); multi = c.get("multi") != 0; dual = c.get("dual") != 0; ninst = dual ? 2 : 1;
        int U = (int)c.get("U", 4);
        Rng r((uint64_t)c.get("useed") * 2654435761ULL + 11);
        // keys chosen to collide on purpose: ask the library's own hash where a candidate lands
        int hot1 = (int)r.below((uint32_t)maxslots), hot2 = (int)r.below((uint32_t)maxslots);
        std::set<Bytes> seen; keys.clear();
        Bytes longbase, lastbin;
        for (int i = 0; i < 20; i++) longbase += (char)('A' + r.below(26));
        int tries = 0;
        while ((int)keys.size() < U) {
            Bytes k; int style = (int)r.below(10);
            if (style < 4) { int len = r.range(1, 14); for (int i = 0; i < len; i++) k += (char)('a' + r.below(6)); k += '\0'; }            // short C string
            else if (style < 6) {
                // short binary keys; every other one is a sibling of the previous one: same length, identical up to an embedded
                // NUL byte and different only after it (keys are byte strings, not C strings)
                if (!lastbin.empty() && r.chance(1, 2)) {
                    k = lastbin;
                    size_t z = k.find('\0');
                    if (z == Bytes::npos || z + 1 >= k.size()) { z = 1; k[1] = '\0'; }
                    size_t pos = z + 1 + r.below((uint32_t)(k.size() - z - 1));
                    k[pos] = (char)(k[pos] + 1 + (char)r.below(200));
                } else {
                    int len = r.range(3, 15); for (int i = 0; i < len; i++) k += (char)r.below(256);
                    lastbin = k;
                }
            }
            else if (style == 6) { for (int i = 0; i < 15; i++) k += (char)('a' + r.below(3)); k += '\0'; }                                    // exactly 16 with terminator
            else if (style < 9) { k = longbase.substr(0, 16); int len = r.pick(std::vector<int>{17, 18, 24, 24, 24, 40, 64, 80, 128}); while ((int)k.size() < len - 1) k += (char)('a' + r.below(4)); k += '\0'; }   // long keys sharing the stored prefix (and often the length)
            else { k = longbase.substr(0, 16); int len = r.chance(1, 6) ? 65535 : (r.chance(1, 4) ? r.pick(std::vector<int>{192, 256, 320}) : r.range(100, 400)); while ((int)k.size() < len - 1) k += (char)('a' + r.below(26)); k += '\0'; }
            int home = (int)(qhashmurmur3_32(k.data(), k.size()) % (uint32_t)maxslots);
            bool want = home == hot1 || home == hot2 || tries > 300 || r.chance(1, 4);
            tries++;
            if (want && seen.insert(k).second) keys.push_back(k);
        }
    }
    const Bytes &key(int a) const { int n = (int)keys.size(); return keys[((a % n) + n) % n]; }
    static bool key_is_cstr(const Bytes &k) { return !k.empty() && k.find('\0') == k.size() - 1; }
    Bytes value(const Op &op) const { return gen_value(op.b, op.c, (op.d >> 2) & 7); }
    Model *new_model() override { auto *m = new HaModel(this); m->maxslots = maxslots; return m; }

    // ---- arena / guards
    static void fill_guards(Inst &i) {
        memset(i.arena, 0xC7, GUARD + i.off);
        memset(i.mem() + i.memsize, 0xC7, GUARD + (32 - i.off));
    }
    static void poison(Inst &i, bool on) {
#ifdef QSIM_ASAN
        if (on) { __asan_poison_memory_region(i.arena, GUARD + i.off); __asan_poison_memory_region(i.mem() + i.memsize, GUARD + (32 - i.off)); }
        else { __asan_unpoison_memory_region(i.arena, GUARD + i.off); __asan_unpoison_memory_region(i.mem() + i.memsize, GUARD + (32 - i.off)); }
#else
        (void)i; (void)on;
#endif
    }
    static bool guards_ok(Inst &i) {
        poison(i, false);
        bool ok = true;
        for (size_t k = 0; k < GUARD + i.off; k++) if (i.arena[k] != 0xC7) ok = false;
        unsigned char *e = i.mem() + i.memsize;
        for (size_t k = 0; k < GUARD + (32 - i.off); k++) if (e[k] != 0xC7) ok = false;
        poison(i, true);
        return ok;
    }
    static void new_arena(Inst &i, size_t memsize, size_t off) {
        i.memsize = memsize; i.off = off;
        i.arena = (unsigned char *)malloc(GUARD + 32 + memsize + GUARD);
        fill_guards(i); poison(i, true);
    }
    static void free_arena(Inst &i) { if (i.arena) { poison(i, false); free(i.arena); } i.arena = nullptr; }

    bool sut_create(Ctx &x) override {
        size_t slot = qhasharr_calculate_memsize(2) - qhasharr_calculate_memsize(1);
        size_t ms = qhasharr_calculate_memsize(maxslots) + (size_t)cfg.get("slack") % slot;
        for (int k = 0; k < ninst; k++) {
            Inst &i = in[k];
            new_arena(i, ms, k == 0 ? 0 : 12);
            memset(i.mem(), (cfg.get("useed") & 1) ? 0x5A : 0xA5, ms);        // dirty memory, the same in both copies: bytes the constructor leaves alone are not "addresses"
            i.h[0] = i.h[1] = nullptr; i.cur = 0;
            { InSut s; i.h[0] = qhasharr(i.mem(), ms); }
            if (!i.h[0]) { for (int j = 0; j <= k; j++) { if (in[j].h[0]) { InSut s; qhasharr_free(in[j].h[0]); } in[j].h[0] = nullptr; free_arena(in[j]); } return false; }
        }
        x.st.add(maxslots <= 8 ? "cfg.small_table" : "cfg.large_table");
        return true;
    }
    void sut_destroy(Ctx &x) override {
        for (int k = 0; k < ninst; k++) {
            Inst &i = in[k];
            for (int j = 0; j < 2; j++) if (i.h[j]) { InSut s; i.h[j]->free(i.h[j]); i.h[j] = nullptr; }
            bool ok = i.arena ? guards_ok(i) : true;
            free_arena(i);
            if (!ok) x.fail("guard-damaged", "mem", "bytes outside the user-supplied region were written");
        }
    }
    void sut_abandon() override { for (int k = 0; k < 2; k++) { in[k].h[0] = in[k].h[1] = nullptr; in[k].arena = nullptr; } }

#if !QSIM_STRUCT
    int slot_of(Inst &, const Bytes &) { return -1; }
#else
    qhasharr_slot_t *slots(Inst &i) { return (qhasharr_slot_t *)(i.mem() + sizeof(qhasharr_data_t)); }
    int slot_of(Inst &i, const Bytes &k) {
        unsigned char md5[16]; qhashmd5(k.data(), k.size(), md5);
        qhasharr_slot_t *s = slots(i);
        for (int j = 0; j < maxslots; j++)
            if ((s[j].count > 0 || s[j].count == -1) && s[j].data.pair.namesize == (uint16_t)k.size() && !memcmp(s[j].data.pair.namemd5, md5, 16)) return j;
        return -1;
    }
#endif

    // apply to one instance
    Result apply1(Inst &i, const Op &op, Ctx &x, bool primary) {
        qhasharr_t *t = i.tbl();
        const Bytes &k = key(op.a);
        switch (op.k) {
        case HA_PUT: {
            Bytes v = value(op); int api = op.d & 3;
            if (api >= 1 && !key_is_cstr(k)) api = 0;
            CallerBuf kb(k), vb(v);
            // what the key holds before (bookkeeping: not a fault target)
            sim_fault_suspend(true);
            size_t osz = 0; void *old; { InSut s; old = t->get_by_obj(t, kb.p, kb.n, &osz); }
            Bytes oldv; if (old) { oldv.assign((char *)old, osz); free(old); }
            sim_fault_suspend(false);
#if QSIM_STRUCT
            int before_home = primary ? (int)slots(i)[qhashmurmur3_32(k.data(), k.size()) % (uint32_t)maxslots].count : 0;
#else
            int before_home = 0;
#endif
            bool ok; int perr = 0;
            {
                InSut s;
                errno = 0;
                if (api == 0) ok = t->put_by_obj(t, kb.p, kb.n, vb.p, vb.n);
                else if (api == 1) ok = t->put(t, (const char *)kb.p, vb.p, vb.n);
                else if (api == 2) ok = t->putstr(t, (const char *)kb.p, (const char *)vb.p);
                else ok = t->putstrf(t, (const char *)kb.p, "%s", (const char *)vb.p);
                perr = errno;
            }
            if (primary && ok) {
                if (before_home < 0) x.st.add(before_home == -1 ? "probe.relocated_foreign_collision_key" : "probe.relocated_foreign_extension_block");
                else if (before_home > 0 && !old) x.st.add("probe.collision_key_added");
                if (v.size() > (size_t)SLOT_DATA) x.st.add("probe.multi_slot_value");
            }
            if (ok) return R_ok();
            // refused because an injected allocation failed: the runner compares the whole table with the state before the call
            if (sim_fault_fired() > 0 && perr != ENOBUFS) return R_fail("enomem");     // (refused for lack of room despite the fault: the ordinary refusal below)
            // a failed put: own key unchanged or absent, never partially written. Canonicalise to "absent".
            sim_fault_suspend(true);
            size_t nsz = 0; void *now; { InSut s; now = t->get_by_obj(t, kb.p, kb.n, &nsz); }
            Bytes nowv; bool present = now != nullptr; if (now) { nowv.assign((char *)now, nsz); free(now); }
            Result r;
            // the statement names the error: a put refused for lack of room "fails with an out-of-space error"
            if (perr != ENOBUFS) r = R_fail("refused-but-errno-is-not-ENOBUFS:" + num(perr));
            else if (!present) r = R_fail("own-key-ok");
            else if (old && nowv == oldv) {
                // refused for lack of space: canonical form "absent". A call that failed because an allocation was refused must leave the key alone.
                { InSut s; t->remove_by_obj(t, (const char *)kb.p, kb.n); }
                r = R_fail("own-key-ok");
            }
            else r = R_fail("own-key-partially-written:" + hexs(nowv, 40));
            sim_fault_suspend(false);
            if (primary) { x.st.add("probe.put_refused_enobufs"); if (v.size() > (size_t)SLOT_DATA) x.st.add("probe.multi_slot_put_refused"); }
            return r;
        }
        case HA_GET: {
            int api = op.d & 3; if (api >= 1 && !key_is_cstr(k)) api = 0;
            CallerBuf kb(k); size_t sz = (size_t)-1; void *p;
            {
                InSut s;
                if (api == 0) p = t->get_by_obj(t, kb.p, kb.n, &sz);
                else if (api == 1) p = t->get(t, (const char *)kb.p, &sz);
                else { p = t->getstr(t, (const char *)kb.p); }
            }
            if (!p) return R_fail();
            if (api == 2) { sim_fault_suspend(true); size_t s2 = 0; void *q; { InSut s; q = t->get_by_obj(t, kb.p, kb.n, &s2); } free(q); sz = s2; sim_fault_suspend(false); }
            Bytes got((const char *)p, sz);
            x.hold(p, got, "hasharr.get");
            return R_ok(encs(got));
        }
        case HA_REMOVE: {
            int api = op.d & 3; if (api == 1 && !key_is_cstr(k)) api = 0;
            CallerBuf kb(k); bool ok;
#if !QSIM_STRUCT
            if (api >= 2) api = 0;
#else
            if (api == 3) {
                // any slot index in range: only an index that holds a key removes (exactly) that key; free slots and value
                // extension blocks are refused without any effect
                int idx = ((op.b % maxslots) + maxslots) % maxslots;
                if (op.b < 0) { { InSut s; ok = t->remove_by_idx(t, op.b); } return ok ? R_ok() : R_fail(); }    // a negative index is refused
                if (primary) { int c = slots(i)[idx].count; x.st.add(c == 0 ? "probe.remove_by_idx_free_slot" : c == -2 ? "probe.remove_by_idx_extension_block" : "probe.remove_by_idx_key_slot"); }
                { InSut s; ok = t->remove_by_idx(t, idx); }
                return ok ? R_ok() : R_fail();
            }
            if (api == 2) {
                int idx = slot_of(i, k);
                if (idx < 0) return R_fail();
                if (primary) { int c = slots(i)[idx].count; x.st.add(c > 1 ? "probe.removed_leading_promotes_collision_key" : c == -1 ? "probe.removed_collision_key" : "probe.removed_plain_key"); }
                InSut s; ok = t->remove_by_idx(t, idx);
            } else
#endif
            {
#if QSIM_STRUCT
                if (primary) { int idx = slot_of(i, k); if (idx >= 0) { int c = slots(i)[idx].count; x.st.add(c > 1 ? "probe.removed_leading_promotes_collision_key" : c == -1 ? "probe.removed_collision_key" : "probe.removed_plain_key"); } }
#endif
                InSut s; ok = api == 0 ? t->remove_by_obj(t, (const char *)kb.p, kb.n) : t->remove(t, (const char *)kb.p);
            }
            return ok ? R_ok() : R_fail();
        }
        case HA_CLEAR: { InSut s; t->clear(t); return R_ok(); }
        case HA_SIZE: {
            int mx = -1, us = -1, n;
            { InSut s; n = t->size(t, &mx, &us); }
            if (primary && us >= mx) x.st.add("probe.table_full");
            return R_ok(num(n) + "," + num(mx) + "," + num(us));
        }
        case HA_WALK: {
            qhasharr_obj_t o; int idx = 0; std::vector<Bytes> seen; bool failed = false; int fired_seen = sim_fault_fired(), retries = 0;
            for (;;) {
                memset(&o, 0, sizeof o);
                bool more; { InSut s; more = t->getnext(t, &o, &idx); }
                if (!more && sim_fault_fired() > fired_seen && retries < 1) { fired_seen = sim_fault_fired(); retries++; failed = true; x.st.add("probe.walk_step_retried_after_enomem"); continue; }   // a step reported failure: so does the walk (the retry only probes that the cursor is still safe to use)
                if (!more) { if (sim_fault_fired() > fired_seen) failed = true; break; }
                Bytes e; Bytes nm((const char *)o.name, o.namesize), v((const char *)o.data, o.datasize);
                enc(e, nm); enc(e, v); seen.push_back(e);
                x.hold(o.name, nm, "hasharr.getnext.name"); x.hold(o.data, v, "hasharr.getnext.data");
                if ((int)seen.size() > maxslots + 2) x.fail("walk-mismatch", "result", "walk returned more elements than slots");
            }
            std::sort(seen.begin(), seen.end());
            Bytes out; for (auto &e : seen) out += e;
            return failed ? R_fail(out) : R_ok(out + "$");
        }
        case HA_DEBUG: {
            FILE *f = fopen("/dev/null", "w"); bool ok;
            { InSut s; ok = t->debug(t, f); }
            fclose(f);
            return ok ? R_ok() : R_fail();
        }
        case HA_TINYCTOR: {
            // a region too small for the header and one slot must be refused without a single byte written outside it
            Inst tiny; size_t sz = (size_t)std::max(1, op.a % (int)qhasharr_calculate_memsize(1));    // less than the header and one slot
            new_arena(tiny, sz, (size_t)(4 * (op.a % 8)));
            memset(tiny.mem(), 0x33, sz);
            qhasharr_t *th;
            { Bookkeeping bk; InSut s; th = qhasharr(tiny.mem(), sz); }
            bool gok = guards_ok(tiny);
            if (th) { InSut s; qhasharr_free(th); }
            free_arena(tiny);
            if (!gok) x.fail("guard-damaged", x.o_mem ? "mem" : "struct", "the constructor wrote outside a " + num((long long)sz) + "-byte region");
            if (primary) x.st.add("probe.constructor_on_too_small_region");
            return th ? R_ok("accepted") : R_fail("refused");
        }
        case HA_REATTACH: {
            // drop the handle; a new one attaches to the existing image (memsize 0)
            { InSut s; i.h[i.cur]->free(i.h[i.cur]); }
            i.h[i.cur] = nullptr;
            qhasharr_t *n; { InSut s; n = qhasharr(i.mem(), 0); }
            if (!n) { { sim_fault_suspend(true); InSut s; n = qhasharr(i.mem(), 0); sim_fault_suspend(false); } i.h[i.cur] = n; return R_fail(); }
            i.h[i.cur] = n;
            if (primary) x.st.add("probe.reattached");
            return R_ok();
        }
        case HA_SECOND: {
            int other = 1 - i.cur;
            if (!i.h[other]) {
                qhasharr_t *n; { InSut s; n = qhasharr(i.mem(), 0); }
                if (!n) return R_fail();
                i.h[other] = n;
            }
            i.cur = other;
            if (primary) x.st.add("probe.switched_handle");
            return R_ok();
        }
        case HA_RELOCATE: {
            // "restart with only the image surviving": byte copy at another address/alignment, old handles and region dropped
            Inst n; n.cur = 0;
            size_t off = (size_t)(4 * ((op.a + (primary ? 0 : 3)) % 8));
#ifndef QSIM_ASAN
            if ((op.a & 8) && cfg.get("misalign")) { off = (size_t)((op.a * 5 + (primary ? 1 : 2)) % 29) + 1; if (primary) x.st.add("probe.relocated_to_unaligned_address"); }
#endif
            new_arena(n, i.memsize, off);
            memcpy(n.mem(), i.mem(), i.memsize);
            for (int j = 0; j < 2; j++) if (i.h[j]) { InSut s; i.h[j]->free(i.h[j]); i.h[j] = nullptr; }
            bool gok = guards_ok(i);
            poison(i, false); memset(i.arena, 0xDD, GUARD + 32 + i.memsize + GUARD); free(i.arena);
            i.arena = n.arena; i.off = n.off; i.memsize = n.memsize; i.cur = 0;
            sim_fault_suspend(true);
            { InSut s; i.h[0] = qhasharr(i.mem(), 0); }
            sim_fault_suspend(false);
            if (!gok) x.fail("guard-damaged", "mem", "bytes outside the user-supplied region were written");
            if (primary) x.st.add("probe.relocated_image");
            return i.h[0] ? R_ok() : R_fail();
        }
        }
        return R_ok();
    }

    Result sut_apply(const Op &op, Ctx &x) override {
        Result r = apply1(in[0], op, x, true);
        if (dual) {
            Ctx shadow; shadow.plan = x.plan; shadow.o_result = true;
            Result r2;
            sim_fault_suspend(true);
            try { r2 = apply1(in[1], op, shadow, false); } catch (Abort &) { sim_fault_suspend(false); shadow.release_pool(); x.fail("image-address-dependent", "struct", "the same operation failed on the second copy of the table"); }
            sim_fault_suspend(false);
            shadow.release_pool();
            if (r2 != r) x.fail("image-address-dependent", "struct", "same history at another address gave " + r2.show() + " instead of " + r.show());
            if (memcmp(in[0].mem(), in[1].mem(), in[0].memsize) != 0) {
                size_t at = 0; while (in[0].mem()[at] == in[1].mem()[at]) at++;
                x.fail("image-address-dependent", "struct", "images of the same history at two addresses differ at byte " + num((long long)at));
            }
            x.st.add("probe.dual_images_compared");
        }
        if (x.o_mem || x.o_struct) { if (!guards_ok(in[0]) || (dual && !guards_ok(in[1]))) x.fail("guard-damaged", x.o_mem ? "mem" : "struct", "bytes outside the user-supplied region were written"); }
        return r;
    }

#if QSIM_STRUCT
    void sut_prepare(Op &op) override {
        // remove_by_idx(arbitrary index): tell the model which key (if any) lives in that slot. c = key number + 1, 0 = none
        if (op.k != HA_REMOVE || (op.d & 3) != 3) return;
        int idx = ((op.b % maxslots) + maxslots) % maxslots;
        op.c = 0;
        if (op.b < 0) return;
        for (size_t kn = 0; kn < keys.size(); kn++) if (slot_of(in[0], keys[kn]) == idx) { op.c = (int)kn + 1; break; }
    }
#endif
    std::string sut_dump(Ctx &) override {
        Inst &i = in[0]; qhasharr_t *t = i.tbl();
        int mx = -1, us = -1, n;
        sim_fault_suspend(true);
        { InSut s; n = t->size(t, &mx, &us); }
        Bytes o = "n=" + num(n) + ",max=" + num(mx) + ",used=" + num(us) + ";";
        std::vector<Bytes> ks = keys; std::sort(ks.begin(), ks.end());
        for (auto &k : ks) {
            size_t sz = 0; void *p;
            { InSut s; p = t->get_by_obj(t, k.data(), k.size(), &sz); }
            if (p) { enc(o, k); enc(o, p, sz); free(p); }
        }
        sim_fault_suspend(false);
        return o;
    }

    // ---- image well-formedness, written from the header's field meanings
#if !QSIM_STRUCT
    void sut_struct(Ctx &) override {}
#else
    void sut_struct(Ctx &x) override {
        for (int k = 0; k < ninst; k++) check_image(in[k], x);
        x.st.add("struct.checks");
    }
    void check_image(Inst &i, Ctx &x) {
        if (!i.arena) return;
        qhasharr_data_t *d = (qhasharr_data_t *)i.mem();
        qhasharr_slot_t *s = slots(i);
        auto bad = [&](const std::string &why) { x.fail("image-malformed", "struct", why); };
        if (d->maxslots != maxslots) bad("header maxslots " + num(d->maxslots) + " != capacity " + num(maxslots));
        int used = 0, nkeys = 0;
        std::vector<int> owner((size_t)maxslots, -1);
        std::vector<int> collisions((size_t)maxslots, 0);
        for (int j = 0; j < maxslots; j++) {
            short c = s[j].count;
            if (c == 0) continue;
            used++;
            if (c < -2) bad("slot " + num(j) + " has count " + num(c));
            if (c > 0 || c == -1) {
                nkeys++;
                uint32_t home = s[j].hash;
                if (home >= (uint32_t)maxslots) bad("slot " + num(j) + " names home " + num((long long)home) + " outside the table");
                if (c > 0 && home != (uint32_t)j) bad("leading slot " + num(j) + " stores home " + num((long long)home));
                if (c == -1) { if (home == (uint32_t)j) bad("collision key sits in its own home slot " + num(j)); collisions[home]++; }
                // (which hash function names the home, and how full a block must be before the chain continues, are the
                //  implementation's business: a misplaced key or a badly packed value shows up in lookups and in the accounting)
                uint16_t ns = s[j].data.pair.namesize;
                if (ns == 0) bad("slot " + num(j) + " stores a key of length 0");
                // follow the value chain
                int prev = j, cur = s[j].link, hops = 0;
                if (owner[j] != -1) bad("slot " + num(j) + " belongs to two keys");
                owner[j] = j;
                if (s[j].datasize > SLOT_DATA) bad("slot " + num(j) + " claims " + num(s[j].datasize) + " value bytes");
                while (cur != -1) {
                    if (cur < 0 || cur >= maxslots) bad("value chain of slot " + num(j) + " leaves the table (" + num(cur) + ")");
                    if (++hops > maxslots) bad("value chain of slot " + num(j) + " has a cycle");
                    if (s[cur].count != -2) bad("value chain of slot " + num(j) + " runs into slot " + num(cur) + " which is not an extension block");
                    if ((int)s[cur].hash != prev) bad("extension block " + num(cur) + " names predecessor " + num((long long)s[cur].hash) + ", expected " + num(prev));
                    if (owner[cur] != -1) bad("extension block " + num(cur) + " belongs to two keys");
                    owner[cur] = j;
                    if (s[cur].datasize > EXT_DATA) bad("extension block " + num(cur) + " claims " + num(s[cur].datasize) + " value bytes");
                    prev = cur; cur = s[cur].link;
                }
            }
        }
        for (int j = 0; j < maxslots; j++) {
            if (s[j].count == -2 && owner[j] == -1) bad("extension block " + num(j) + " is orphaned (no key's value chain reaches it)");
            if (s[j].count > 0 && s[j].count - 1 != collisions[j]) bad("leading slot " + num(j) + " counts " + num(s[j].count) + " keys but " + num(collisions[j]) + " collision slot(s) name it");
            if (s[j].count <= 0 && collisions[j] > 0) bad("collision slot(s) name home " + num(j) + " which holds no leading key");
        }
        if (d->usedslots != used) bad("header usedslots " + num(d->usedslots) + " but " + num(used) + " slots are occupied");
        if (d->num != nkeys) bad("header num " + num(d->num) + " but " + num(nkeys) + " keys are stored");
    }
#endif

    std::string render(const Op &op) const override {
        char b[220];
        switch (op.k) {
        case HA_PUT: snprintf(b, sizeof b, "put key#%d(len %zu) value(seed %d,len %d,class %d) api%d [max %d]", op.a, key(op.a).size(), op.b, op.c, (op.d >> 2) & 7, op.d & 3, maxslots); break;
        case HA_GET: snprintf(b, sizeof b, "get key#%d(len %zu) api%d", op.a, key(op.a).size(), op.d & 3); break;
        case HA_REMOVE:
            if ((op.d & 3) == 3) snprintf(b, sizeof b, "remove_by_idx(slot %d) [holds key#%d]", ((op.b % maxslots) + maxslots) % maxslots, op.c - 1);
            else snprintf(b, sizeof b, "remove key#%d(len %zu) api%d%s", op.a, key(op.a).size(), op.d & 3, (op.d & 3) == 2 ? " (by slot index)" : "");
            break;
        case HA_RELOCATE: snprintf(b, sizeof b, "relocate image (offset rule %d)", op.a); break;
        default: snprintf(b, sizeof b, "%s", HA_NAMES[op.k].c_str()); break;
        }
        return b;
    }
};

Result HaModel::apply(const Op &op) {
    const Bytes &k = w->key(op.a);
    switch (op.k) {
    case HA_PUT: {
        Bytes v = w->value(op); int api = op.d & 3;
        if (api >= 1 && !HaWorld::key_is_cstr(k)) api = 0;
        if (api >= 2) v = Bytes(v.c_str()) + Bytes(1, '\0');
        auto it = m.find(k);
        int u = used(), freeslots = maxslots - u + (it != m.end() ? cost(it->second.size()) : 0);
        if (u < maxslots && cost(v.size()) <= freeslots) { m[k] = v; return R_ok(); }
        if (it != m.end()) m.erase(it);     // canonical form after a refused put: own key absent
        return R_fail("own-key-ok");
    }
    case HA_GET: { auto it = m.find(k); if (it == m.end()) return R_fail(); return R_ok(encs(it->second)); }
    case HA_REMOVE:
        if ((op.d & 3) == 3) { if (op.c <= 0) return R_fail(); return m.erase(w->key(op.c - 1)) ? R_ok() : R_fail(); }
        return m.erase(k) ? R_ok() : R_fail();
    case HA_CLEAR: m.clear(); return R_ok();
    case HA_SIZE: return R_ok(num((long long)m.size()) + "," + num(maxslots) + "," + num(used()));
    case HA_TINYCTOR: return R_fail("refused");
    case HA_WALK: {
        std::vector<Bytes> seen;
        for (auto &kv : m) { Bytes e; enc(e, kv.first.substr(0, Q_HASHARR_NAMESIZE)); enc(e, kv.second); seen.push_back(e); }
        std::sort(seen.begin(), seen.end());
        Bytes out; for (auto &e : seen) out += e;
        return R_ok(out + "$");
    }
    default: return R_ok();
    }
}

World *make_hasharr() { return new HaWorld(); }
