// World: qtreetbl (C01-C04, and as a container for C11-C15)
#include "wutil.h"
#ifndef QSIM_STRUCT
#define QSIM_STRUCT 1      // 0: this adapter is built without reading any private struct field (API-level oracles only)
#endif
#include <setjmp.h>
#include <math.h>
#include <algorithm>
extern "C" {
#include "containers/qtreetbl.h"
}

typedef int (*cmp_fn)(const void *, size_t, const void *, size_t);
static int cmp_bytes(const void *a, size_t an, const void *b, size_t bn) {
    size_t m = an < bn ? an : bn;
    int c = memcmp(a, b, m);
    if (c != 0 || an == bn) return c;
    return an < bn ? -1 : 1;
}
static int cmp_rev(const void *a, size_t an, const void *b, size_t bn) { return cmp_bytes(b, bn, a, an); }
static int cmp_len(const void *a, size_t an, const void *b, size_t bn) {
    if (an != bn) return an < bn ? -1 : 1;
    return memcmp(a, b, an);
}
static int cmp_fold(const void *a, size_t an, const void *b, size_t bn) {
    const unsigned char *x = (const unsigned char *)a, *y = (const unsigned char *)b;
    size_t m = an < bn ? an : bn;
    for (size_t i = 0; i < m; i++) {
        int cx = tolower(x[i]), cy = tolower(y[i]);
        if (cx != cy) return cx < cy ? -1 : 1;
    }
    if (an == bn) return 0;
    return an < bn ? -1 : 1;
}
static cmp_fn base_cmp(int id) { switch (id) { case 2: return cmp_rev; case 3: return cmp_len; case 4: return cmp_fold; default: return cmp_bytes; } }

// counting comparator = the simulator's step clock for the tree
static cmp_fn g_cmp_base = cmp_bytes;
static long g_cmp_calls = 0, g_cmp_budget = 0;
static sigjmp_buf g_cmp_jmp;
static bool g_cmp_armed = false;
static int counting_cmp(const void *a, size_t an, const void *b, size_t bn) {
    if (++g_cmp_calls > g_cmp_budget && g_cmp_armed) { g_cmp_armed = false; siglongjmp(g_cmp_jmp, 1); }
    return g_cmp_base(a, an, b, bn);
}

struct KeyLess {
    cmp_fn f;
    bool operator()(const Bytes &a, const Bytes &b) const { return f(a.data(), a.size(), b.data(), b.size()) < 0; }
};
typedef std::map<Bytes, Bytes, KeyLess> TMap;

enum { NULLKEY = 0x100, SELFREF = 0x400 };
enum { T_PUT, T_GET, T_REMOVE, T_CLEAR, T_SIZE, T_MIN, T_MAX, T_WALK, T_ABANDON, T_NEAREST, T_LOCKEDWALK, T_BULK, T_DEBUG, T_NOPS };
static const std::vector<std::string> T_NAMES = {"put", "get", "remove", "clear", "size", "find_min", "find_max", "walk", "abandon",
                                                 "find_nearest", "lockedwalk", "bulk", "debug"};

struct TreeWorld;
struct TreeModel : Model {
    const TreeWorld *w; TMap m; bool unfinished = false;
    TreeModel(const TreeWorld *w_, cmp_fn f) : w(w_), m(KeyLess{f}) {}
    Model *clone() const override { return new TreeModel(*this); }
    Result apply(const Op &op) override;
    std::string dump() const override;
    std::string full_state() const override {
        Bytes o = unfinished ? "U;" : "F;";
        for (auto &kv : m) { enc(o, kv.first); enc(o, kv.second); }
        return o;
    }
};

struct TreeWorld : World {
    std::vector<Bytes> keys, probes;
    int U = 0, kstyle = 0, cmpid = 0;
    bool threadsafe = false, counting = false, mt = false;
    qtreetbl_t *t = nullptr;
    bool unfinished = false, walk_failed = false;
    uint64_t walks_started = 0;
    void *last_root = nullptr;

    const char *name() const override { return "treetbl"; }
    const std::vector<std::string> &opnames() const override { return T_NAMES; }

    // ---------------- generation
    void gen_cfg(Rng &r, const std::string &prop, const std::string &mode, Cfg &c) override {
        c.world = "treetbl";
        int U_ = r.pick(std::vector<int>{3, 4, 5, 6, 8, 12, 16, 24, 40, 64});
        if (prop == "C03" || prop == "C04") U_ = r.pick(std::vector<int>{2, 3, 4, 5, 6, 8, 12, 16});
        if (mode == "threads") U_ = r.pick(std::vector<int>{2, 3, 4});
        if (prop == "C02" && r.chance(1, 25)) U_ = r.pick(std::vector<int>{200, 600, 2000});
        c.set("U", U_);
        c.set("kstyle", r.below(2));
        c.set("useed", (long)r.below(1000000));
        int cm = (int)r.below(5);
        if (mode == "threads" || mode == "lockbal") cm = r.chance(1, 2) ? 0 : (int)r.range(2, 4) + 10;   // +10: uncounted user ordering
        c.set("cmp", cm);
        c.set("ts", (mode == "threads" || mode == "lockbal") ? 1 : (r.chance(1, 5) ? 1 : 0));
        c.set("mt", mode == "threads" ? 1 : 0);
        c.set("nops", prop == "C02" && U_ >= 200 ? r.range(U_, 3 * U_) : r.range(5, r.chance(1, 4) ? 400 : 60));
    }
    Op gen_op(Rng &r, const std::string &prop, const std::string &mode, GenState &g) override {
        Op op;
        int Uc = (int)cfg.get("U");
        bool str = cfg.get("kstyle") == 0;
        auto key = [&]() { return (int)r.below((uint32_t)Uc); };
        auto putd = [&]() {
            int api = str ? (int)r.below(4) : 0;
            int klass = (api >= 2) ? (r.chance(1, 2) ? 1 : 5) : (int)r.below(6);
            if (api == 0 && mode != "threads" && r.chance(1, 12)) klass = 6;     // (the adapter peeks before a value-less put: not atomic, so never in thread programs)
            return api | (klass << 2);
        };
        if (mode == "threads") {
            op.k = wpick(r, {{30, T_PUT}, {20, T_GET}, {20, T_REMOVE}, {4, T_CLEAR}, {6, T_MIN}, {6, T_MAX}, {6, T_NEAREST}, {8, T_LOCKEDWALK}});
            op.a = key();
            if (op.k == T_PUT) { op.b = (int)r.below(1 << 20); op.c = r.range(1, 12); op.d = putd(); }
            if (op.k == T_GET) op.d = 1 | ((str ? (int)r.below(2) : 0) << 1);
            if (op.k == T_NEAREST) { op.a = (int)r.below((uint32_t)(Uc * 2 + 2)); op.d = 1; }
            return op;
        }
        if (prop == "C01" || prop == "C12" || prop == "C11" || prop == "C15" || prop == "C14")
            op.k = wpick(r, {{40, T_PUT}, {22, T_GET}, {20, T_REMOVE}, {2, T_CLEAR}, {5, T_SIZE}, {5, T_MIN}, {5, T_MAX},
                             {(prop == "C11" || prop == "C15" || prop == "C14" || prop == "C12") ? 6 : 0, T_WALK},
                             {(prop == "C11" || prop == "C15" || prop == "C14") ? 6 : 0, T_NEAREST},
                             {(prop == "C14") ? 3 : 0, T_DEBUG}, {(prop == "C14") ? 6 : 0, T_LOCKEDWALK}});
        else if (prop == "C02")
            op.k = Uc >= 200 ? wpick(r, {{50, T_PUT}, {10, T_GET}, {40, T_REMOVE}, {1, T_BULK}})
                             : wpick(r, {{40, T_PUT}, {15, T_GET}, {40, T_REMOVE}, {1, T_CLEAR}, {2, T_BULK}});
        else if (prop == "C03")
            op.k = wpick(r, {{30, T_PUT}, {25, T_REMOVE}, {1, T_CLEAR}, {22, T_WALK}, {8, T_ABANDON}, {8, T_NEAREST}, {2, T_GET}});
        else /* C04 */
            op.k = wpick(r, {{30, T_PUT}, {25, T_REMOVE}, {1, T_CLEAR}, {6, T_WALK}, {5, T_ABANDON}, {30, T_NEAREST}});
        op.a = key();
        switch (op.k) {
        case T_PUT: op.b = (int)r.below(1 << 20); op.c = gen_vlen(r, 300); op.d = putd(); if ((op.d & 3) == 3 && r.chance(1, 4)) op.c = gen_fmt_len(r); break;
        case T_GET: op.d = (int)r.below(2) | ((str ? (int)r.below(3) : 0) << 1); break;
        case T_REMOVE: op.d = str ? (int)r.below(2) : 0; break;
        case T_LOCKEDWALK: op.d = (int)r.below(2); break;
        case T_WALK:
            op.a = (prop == "C03" || ((prop == "C04" || prop == "C11" || prop == "C12" || prop == "C15") && r.chance(1, 2))) ? r.pick(std::vector<int>{1, 1, 1, 2, 3, 100, 126, 127, 128, 129, 254, 255, 256, 257, 300}) : 1;
            op.d = (int)r.below(2); break;
        case T_ABANDON:
            op.a = r.range(1, 4); op.d = (int)r.below(2);
            // b = how many walks in a row are started and abandoned (each consumes one traversal epoch)
            op.b = (prop == "C03" || prop == "C04") ? r.pick(std::vector<int>{1, 1, 1, 1, 2, 3, 60, 126, 127, 128, 200, 252, 253, 254, 255, 256, 257}) : 1;
            break;
        case T_NEAREST: op.a = (int)r.below((uint32_t)(Uc * 2 + 2)); op.d = (int)r.below(2) | ((r.chance(2, 3) ? 1 : 0) << 1); op.c = r.chance(1, 5) ? r.range(1, 3) : 0; break;
        case T_BULK: op.a = (int)r.below(4); op.b = r.range(2, Uc); break;
        default: break;
        }
        if (mode != "threads" && op.k == T_PUT && r.chance(1, 25)) op.d = SELFREF;
        if (prop == "C14" && r.chance(1, 8) && (op.k == T_PUT || op.k == T_GET || op.k == T_REMOVE)) { op.d &= ~(3 | SELFREF); op.d |= NULLKEY; }
        (void)g;
        return op;
    }
    bool result_is_ambiguous(const Op &op) const override { return op.k == T_CLEAR; }
    bool is_mutation(const Op &op) const override { return op.k == T_PUT || op.k == T_REMOVE || op.k == T_CLEAR || op.k == T_BULK; }

    // ---------------- universe
    void init(const Cfg &c) override {
        cfg = c; U = (int)c.get("U"); kstyle = (int)c.get("kstyle"); cmpid = (int)c.get("cmp"); threadsafe = c.get("ts") != 0; mt = c.get("mt") != 0;
        counting = cmpid >= 1 && cmpid <= 4;
        Rng r((uint64_t)c.get("useed") * 7919 + 17);
        std::set<Bytes> seen;
        keys.clear(); probes.clear();
        auto mk = [&](bool probe) {
            for (int tries = 0;; tries++) {
                Bytes k;
                int len = (U > 64) ? r.range(2, 6) : r.range(1, tries > 50 ? 8 : 4);
                const char *alpha = kstyle == 0 ? "abAB" : "\x00\x01" "ab\xff";
                int na = kstyle == 0 ? 4 : 5;
                if (U > 64) { alpha = "abcdefghijklmnopABCDEFGH"; na = 24; }
                for (int i = 0; i < len; i++) k += alpha[r.below((uint32_t)na)];
                if (kstyle == 0) k += '\0';
                // under a case-folding ordering keys equal up to case are one key: keep them (they test "equal key")
                if (seen.insert(k).second || (probe && tries > 200)) return k;
            }
        };
        for (int i = 0; i < U; i++) keys.push_back(mk(false));
        for (int i = 0; i < U; i++) probes.push_back(mk(true));
        probes.push_back(kstyle == 0 ? Bytes("\x01\0", 2) : Bytes("\0", 1));                 // below everything (byte order)
        probes.push_back(kstyle == 0 ? Bytes("\xff\xff\xff\xff\xff\xff\xff\xff\xff\0", 10) : Bytes("\xff\xff\xff\xff\xff\xff\xff\xff\xff", 9));
    }
    cmp_fn order() const { int id = cmpid >= 10 ? cmpid - 10 : cmpid; return base_cmp(id); }
    const Bytes &probe(int a) const { int n = (int)(keys.size() + probes.size()); a = ((a % n) + n) % n; return a < (int)keys.size() ? keys[a] : probes[a - keys.size()]; }
    const Bytes &key(int a) const { int n = (int)keys.size(); return keys[((a % n) + n) % n]; }
    // representative spelling of a key: the first universe key equal to it under the ordering
    Bytes rep(const Bytes &k) const { cmp_fn f = order(); for (auto &u : keys) if (f(u.data(), u.size(), k.data(), k.size()) == 0) return u; return k; }
    // Which spelling of a key the table keeps when an equal key is put again is not specified: keys returned by the table
    // are compared up to equality under the ordering (only the case-folding ordering has distinct equal keys).
    Bytes canon(const Bytes &k) const { return order() == cmp_fold ? rep(k) : k; }
    // class 6 = no value at all (NULL, 0): the table used as a set, as the library's own tests do
    Bytes value(const Op &op) const { if (((op.d >> 2) & 7) == 6) return Bytes(); return gen_value(op.b, op.c, (op.d >> 2) & 7); }
    Model *new_model() override { return new TreeModel(this, order()); }

    // ---------------- SUT
    bool sut_create(Ctx &x) override {
        unfinished = false; walks_started = 0; last_root = nullptr;
        { InSut s; t = qtreetbl(threadsafe ? QTREETBL_THREADSAFE : 0); }
        if (!t) return false;
        if (cmpid >= 10) t->set_compare(t, order());
        else if (counting) { g_cmp_base = order(); t->set_compare(t, counting_cmp); }
        x.st.add(threadsafe ? "cfg.threadsafe" : "cfg.plain");
        return true;
    }
    void sut_destroy(Ctx &) override { if (t) { InSut s; t->free(t); } t = nullptr; }
    void sut_abandon() override { t = nullptr; }
#if QSIM_STRUCT
    void *sut_mutex() override { return t ? t->qmutex : nullptr; }
    bool sut_sees_mutex() override { return true; }
#endif
    bool sut_user_lock() override { InSutLock s; t->lock(t); return true; }
    void sut_force_unlock() override { InSutLock s; t->unlock(t); }
    void sut_probe(Ctx &) override { InSut s; size_t n; void *p = t->find_min(t, &n); free(p); }

    long budget() const { size_t n = t ? t->size(t) : 0; return 100 + 8 * (long)(2 * log2((double)n + 2)); }

// run a SUT call under the comparator step budget (seq mode with a counting comparator only)
#define TCALL(x, stmt)                                                                                       \
    do {                                                                                                     \
        g_cmp_calls = 0; g_cmp_budget = counting ? budget() : 0;  /* size() is unlocked: never in thread programs */ \
        if (counting && sigsetjmp(g_cmp_jmp, 1) != 0) {                                                      \
            sim_in_sut(false);                                                                               \
            sut_abandon();                                                                                   \
            x.fail("not-terminated", "result", "comparator step budget exceeded inside the call (no termination)"); \
        }                                                                                                    \
        g_cmp_armed = counting; { InSut _g; stmt; } g_cmp_armed = false;                                     \
    } while (0)

    Result sut_apply(const Op &op, Ctx &x) override {
        switch (op.k) {
        case T_PUT: {
            Bytes k = key(op.a), v = value(op);
            int api = op.d & 3; bool ok = false;
            CallerBuf kb(k), vb(v);
            if (op.d & NULLKEY) { TCALL(x, ok = (api == 0) ? t->putobj(t, nullptr, 0, vb.p, vb.n) : t->put(t, nullptr, vb.p, vb.n)); return ok ? R_ok() : R_fail(); }
            if (op.d & SELFREF) {
                size_t n = 0; void *p; TCALL(x, p = t->getobj(t, kb.p, kb.n, &n, false));
                if (!p || n == 0) return R_ok("skip");
                size_t off = (size_t)op.c % n;
                TCALL(x, ok = t->putobj(t, kb.p, kb.n, (char *)p + off, n - off));
                x.st.add("probe.put_from_own_value");
                return ok ? R_ok() : R_fail();
            }
            if (api == 0 && v.empty()) {
                // replacing an existing value by "no value" is outside every statement: only issue it when the key has no value yet
                void *cur; size_t cs; sim_fault_suspend(true); TCALL(x, cur = t->getobj(t, kb.p, kb.n, &cs, false)); sim_fault_suspend(false);
                if (cur && cs > 0) return R_ok("skip");
                TCALL(x, ok = t->putobj(t, kb.p, kb.n, nullptr, 0));
            }
            else if (api == 0) TCALL(x, ok = t->putobj(t, kb.p, kb.n, vb.p, vb.n));
            else if (api == 1) TCALL(x, ok = t->put(t, (const char *)kb.p, vb.p, vb.n));
            else if (api == 2) TCALL(x, ok = t->putstr(t, (const char *)kb.p, (const char *)vb.p));
            else TCALL(x, ok = t->putstrf(t, (const char *)kb.p, "%s", (const char *)vb.p));
            return ok ? R_ok() : R_fail();
        }
        case T_GET: {
            Bytes k = key(op.a);
            bool newmem = op.d & 1; int api = (op.d >> 1) & 3;
            size_t sz = (size_t)-1; void *p = nullptr;
            if (op.d & NULLKEY) { TCALL(x, p = t->getobj(t, nullptr, 0, &sz, newmem)); if (p && newmem) free(p); return p ? R_ok("?") : R_fail(); }
            {
                CallerBuf kb(k);
                if (api == 0) TCALL(x, p = t->getobj(t, kb.p, kb.n, &sz, newmem));
                else if (api == 1) TCALL(x, p = t->get(t, (const char *)kb.p, &sz, newmem));
                else {
                    TCALL(x, p = t->getstr(t, (const char *)kb.p, newmem));
                    if (p) { size_t s2 = 0; void *q; TCALL(x, q = t->getobj(t, kb.p, kb.n, &s2, false)); sz = q ? s2 : 0; g_cmp_calls = 0; }
                }
                if (counting && g_cmp_calls > 0) {
                    size_t n = t->size(t);
                    long bound = (long)floor(2.0 * log2((double)n + 1.0) + 1e-9);
                    x.st.add("cmp.lookups");
                    if (g_cmp_calls > bound) x.fail("lookup-cost", "struct", "lookup among " + num((long long)n) + " keys used " + num(g_cmp_calls) + " comparisons, bound " + num(bound));
                }
            }
            if (p && sz == 0) { if (newmem) free(p); p = nullptr; }     // a key stored without a value: NULL or an empty value, both mean "nothing"
            if (!p) return R_fail();
            Bytes got((const char *)p, sz);
            if (newmem) x.hold(p, got, "treetbl.get(newmem)");
            return R_ok(encs(got));
        }
        case T_REMOVE: {
            Bytes k = key(op.a); bool ok;
            CallerBuf kb(k);
            if (op.d & NULLKEY) { TCALL(x, ok = t->removeobj(t, nullptr, 0)); return ok ? R_ok() : R_fail(); }
            if ((op.d & 1) == 0) TCALL(x, ok = t->removeobj(t, kb.p, kb.n));
            else TCALL(x, ok = t->remove(t, (const char *)kb.p));
            return ok ? R_ok() : R_fail();
        }
        case T_CLEAR: { TCALL(x, t->clear(t)); return R_ok(); }
        case T_SIZE: { size_t n; TCALL(x, n = t->size(t)); return R_ok(num((long long)n)); }
        case T_MIN: case T_MAX: {
            size_t n = (size_t)-1; void *p;
            if (op.k == T_MIN) TCALL(x, p = t->find_min(t, &n)); else TCALL(x, p = t->find_max(t, &n));
            if (!p) return R_fail();
            Bytes got((const char *)p, n);
            x.hold(p, got, "treetbl.find_min/max");
            return R_ok(encs(canon(got)));
        }
        case T_WALK: case T_LOCKEDWALK: {
            int m = op.k == T_WALK ? std::max(1, op.a) : 1; bool newmem = op.d & 1;
            Bytes first; Bytes out;
            if (op.k == T_LOCKEDWALK) { InSutLock s; t->lock(t); }
            walk_failed = false;
            bool unfinished_before_op = unfinished;      // a failed operation is rolled back in the model: so is this flag
            for (int i = 0; i < m; i++) {
                Bytes cur = walk(x, newmem, -1, nullptr);
                if (walk_failed) { unfinished = unfinished_before_op; if (op.k == T_LOCKEDWALK) { InSutLock s; t->unlock(t); } return R_fail(cur); }
                if (i == 0) first = cur;
                else if (cur != first) { out = "DIFF@walk" + num(i + 1) + ":" + cur; break; }
            }
            if (op.k == T_LOCKEDWALK) { InSutLock s; t->unlock(t); }
            if (m >= 100) x.st.add("probe.many_walks");
            return R_ok(first + out);
        }
        case T_ABANDON: {
            bool stopped = false;
            walk_failed = false;
            Bytes cur;
            bool unfinished_before_op = unfinished;
            for (int rep = 0; rep < std::max(1, op.b); rep++) {
                stopped = false;
                Bytes c2 = walk(x, (op.d & 1) && rep == 0, std::max(1, op.a), &stopped);
                if (walk_failed) { unfinished = unfinished_before_op; return R_fail(c2); }
                if (rep == 0) cur = c2;
                else if (c2 != cur) { cur += "DIFF@abandoned-walk" + num(rep + 1) + ":" + c2; break; }
            }
            if (op.b > 100) x.st.add("probe.many_abandoned_walks");
            if (stopped) { unfinished = true; x.st.add("probe.walk_abandoned"); }
            return R_ok(cur);
        }
        case T_NEAREST: {
            Bytes pk = probe(op.a); bool newmem = op.d & 1; bool cont = (op.d >> 1) & 1;
            qtreetbl_obj_t o;
            { CallerBuf kb(pk); TCALL(x, o = t->find_nearest(t, kb.p, kb.n, newmem)); }
            if (o.name == nullptr) {
                if (newmem) { free(o.data); }
                return R_fail();
            }
            Bytes gk((const char *)o.name, o.namesize), gv;
            if (o.data) gv.assign((const char *)o.data, o.datasize);
            Bytes out; enc(out, canon(gk)); enc(out, gv);
            if (newmem) { x.hold(o.name, gk, "treetbl.find_nearest(newmem).name"); if (o.data) x.hold(o.data, gv, "treetbl.find_nearest(newmem).data"); }
            if (cont && !unfinished && !mt) {
                // continue the traversal from the returned cursor: every key exactly once (order unspecified)
                std::vector<Bytes> seen;
                int limit = op.c > 0 ? op.c : -1; bool stopped = false;
                size_t guard = t->size(t) * 2 + 8;
                int fired_before = sim_fault_fired();
                for (;;) {
                    if (limit >= 0 && (int)seen.size() >= limit) { stopped = true; break; }
                    bool more; TCALL(x, more = t->getnext(t, &o, false));
                    if (!more && sim_fault_fired() > fired_before) {
                        // a step gave up under the injected failure: the operation reports failure; leave no walk unfinished
                        sim_fault_suspend(true);
                        qtreetbl_obj_t c; memset(&c, 0, sizeof c); size_t g2 = 0;
                        for (;;) { bool m2; TCALL(x, m2 = t->getnext(t, &c, false)); if (!m2 || ++g2 > guard) break; }
                        sim_fault_suspend(false);
                        return R_fail(out);
                    }
                    if (!more) break;
                    Bytes e; enc(e, canon(Bytes((const char *)o.name, o.namesize))); enc(e, Bytes((const char *)o.data, o.datasize));
                    seen.push_back(e);
                    if (seen.size() > guard) { sut_abandon(); x.fail("walk-mismatch", "result", "traversal continued from find_nearest does not end (more elements than keys)"); }
                }
                if (stopped) { unfinished = true; out += "|part"; }
                else {
                    std::sort(seen.begin(), seen.end());
                    out += "|all:";
                    for (auto &e : seen) out += e;
                    x.st.add("probe.nearest_continued");
                }
            }
            return R_ok(out);
        }
        case T_BULK: {
            // a: 0 ascending puts, 1 descending puts, 2 ascending removes, 3 descending removes; b = count
            int n = std::min((int)keys.size(), std::max(1, op.b));
            std::vector<Bytes> ks(keys.begin(), keys.begin() + n);
            std::sort(ks.begin(), ks.end(), KeyLess{order()});
            if (op.a & 1) std::reverse(ks.begin(), ks.end());
            int okc = 0;
            for (auto &k : ks) {
                CallerBuf kb(k); bool ok;
                if (op.a < 2) { Bytes v = gen_value(op.b, 3, 0); CallerBuf vb(v); TCALL(x, ok = t->putobj(t, kb.p, kb.n, vb.p, vb.n)); }
                else TCALL(x, ok = t->removeobj(t, kb.p, kb.n));
                okc += ok;
                if (x.o_struct) sut_struct(x);
            }
            return R_ok(num(okc));
        }
        case T_DEBUG: {
            FILE *f = fopen("/dev/null", "w"); bool ok;
            { InSut s; ok = t->debug(t, f); }
            fclose(f);
            return ok ? R_ok() : R_fail();
        }
        }
        return R_ok();
    }

    // one traversal from a zeroed cursor; limit<0: complete
    Bytes walk(Ctx &x, bool newmem, int limit, bool *stopped) {
        qtreetbl_obj_t o; memset(&o, 0, sizeof o);
        Bytes out; int cnt = 0;
        size_t guard = t->size(t) * 2 + 8;
        int fired_seen = sim_fault_fired(), retries = 0;
        bool unfinished_at_entry = unfinished;
        walks_started++;
#if QSIM_STRUCT
        if (sim_self() < 0) {
            if (t->root != last_root && last_root != nullptr) x.st.add("probe.root_changed_between_walks");
            last_root = t->root;
            if (t->tid == 255 || t->tid == 0) x.st.add("probe.epoch_wrap");
        }
#endif
        // a step reported failure (ENOMEM): so does the walk; bring the traversal state back to "no walk unfinished" with a
        // complete fault-free walk so that the history stays comparable with the model
        auto give_up = [&]() {
            walk_failed = true;
            unfinished = unfinished_at_entry;     // the model is rolled back to its state before a failed operation
            sim_fault_suspend(true);
            qtreetbl_obj_t c; memset(&c, 0, sizeof c); size_t g2 = 0;
            for (;;) { bool m2; TCALL(x, m2 = t->getnext(t, &c, false)); if (!m2 || ++g2 > guard) break; }
            sim_fault_suspend(false);
        };
        for (;;) {
            if (limit >= 0 && cnt >= limit) { if (retries) { give_up(); return out; } if (stopped) *stopped = true; return out; }
            void *n0 = o.name, *d0 = o.data;
            bool more; TCALL(x, more = t->getnext(t, &o, newmem));
            if (!more && sim_fault_fired() > fired_seen) { check_cursor_ptr(x, "name", n0, o.name); check_cursor_ptr(x, "data", d0, o.data); }
            if (!more && sim_fault_fired() > fired_seen && retries < 1) {
                // the client tries once more with the same cursor: this only probes that the cursor is still safe to use
                fired_seen = sim_fault_fired(); retries++; x.st.add("probe.walk_step_retried_after_enomem");
                continue;
            }
            if (!more) {
                if (sim_fault_fired() > fired_seen || retries) give_up();
                break;
            }
            Bytes k, v;
            if (o.name) k.assign((const char *)o.name, o.namesize); else k = "(null-name)";
            if (o.data) v.assign((const char *)o.data, o.datasize); else if (o.datasize != 0 && !(sim_fault_fired() > 0)) v = "(null-data)";
            if (newmem) { if (o.name) x.hold(o.name, k, "treetbl.getnext(newmem).name"); if (o.data) x.hold(o.data, v, "treetbl.getnext(newmem).data"); }
            enc(out, o.name ? canon(k) : k); enc(out, v);
            if ((size_t)++cnt > guard) { sut_abandon(); x.fail("walk-mismatch", "result", "traversal does not end (more elements than keys)"); }
        }
        if (!walk_failed) unfinished = false;
        out += "$";
        return out;
    }

    std::string sut_dump(Ctx &x) override {
        // API-only and side-effect free: size + lookup of every universe key (lookups do not touch traversal state)
        Bytes o = "n=" + num((long long)t->size(t)) + ";";
        std::vector<std::pair<Bytes, Bytes>> found;
        std::set<Bytes, KeyLess> seen(KeyLess{order()});
        for (auto &k : keys) {
            if (!seen.insert(k).second) continue;
            size_t sz = 0; void *p;
            { InSut s; p = t->getobj(t, k.data(), k.size(), &sz, false); }
            if (p && sz > 0) found.push_back({k, Bytes((const char *)p, sz)});
        }
        std::sort(found.begin(), found.end(), [&](const std::pair<Bytes, Bytes> &a, const std::pair<Bytes, Bytes> &b) { return KeyLess{order()}(a.first, b.first); });
        // the model dumps the stored key bytes; under a folding order the stored spelling is the first inserted one.
        // To stay API-only we report the looked-up spelling canonicalised by the model's own order (handled in compare_dump).
        for (auto &kv : found) { enc(o, kv.first); enc(o, kv.second); }
        (void)x;
        return o;
    }

    // ---------------- structural invariant (reads the public node fields)
#if QSIM_STRUCT
    struct Chk { bool ok = true; std::string why; size_t count = 0; };
    int black_height(qtreetbl_obj_t *n, Chk &c, qtreetbl_obj_t *lo, qtreetbl_obj_t *hi, int depth, cmp_fn f) {
        if (!n) return 1;
        if (depth > 200) { c.ok = false; c.why = "depth>200 (cycle?)"; return 0; }
        c.count++;
        if (c.ok) {
            if ((lo && f(lo->name, lo->namesize, n->name, n->namesize) >= 0) || (hi && f(n->name, n->namesize, hi->name, hi->namesize) >= 0)) {
                c.ok = false; c.why = "search order violated at " + hexs(Bytes((const char *)n->name, n->namesize));
            }
            bool lr = n->left && n->left->red, rr = n->right && n->right->red;
            if (n->red && (lr || rr)) { c.ok = false; c.why = "red node " + hexs(Bytes((const char *)n->name, n->namesize)) + " has a red child"; }
            else if (rr && !lr) { c.ok = false; c.why = "right-leaning lone red link below " + hexs(Bytes((const char *)n->name, n->namesize)); }
        }
        int lh = black_height(n->left, c, lo, n, depth + 1, f);
        int rh = black_height(n->right, c, n, hi, depth + 1, f);
        if (c.ok && lh != rh) { c.ok = false; c.why = "black height differs below " + hexs(Bytes((const char *)n->name, n->namesize)) + " (" + num(lh) + " vs " + num(rh) + ")"; }
        return lh + (n->red ? 0 : 1);
    }
    void sut_struct(Ctx &x) override {
        if (!t) return;
        Chk c;
        if (t->root && t->root->red) { c.ok = false; c.why = "root is red"; }
        black_height(t->root, c, nullptr, nullptr, 0, order());
        if (c.ok && c.count != t->num) { c.ok = false; c.why = "node count " + num((long long)c.count) + " != size() " + num((long long)t->num); }
        int lib = qtreetbl_check(t);
        x.st.add("struct.checks");
        if (!c.ok) x.fail("structure", "struct", c.why + (lib ? " (qtreetbl_check agrees: " + num(lib) + ")" : " (qtreetbl_check says 0: disagrees)"));
        if (lib != 0) x.fail("structure", "struct", "qtreetbl_check() returned " + num(lib) + " on a tree the independent checker accepts");
    }
#else
    void sut_struct(Ctx &x) override {
        if (!t) return;
        int lib = qtreetbl_check(t);
        x.st.add("struct.checks_api_only");
        if (lib != 0) x.fail("structure", "struct", "qtreetbl_check() returned " + num(lib));
    }
#endif

    std::string render(const Op &op) const override {
        char b[200];
        switch (op.k) {
        case T_PUT: snprintf(b, sizeof b, "put key#%d=%s value(seed %d,len %d,class %d) api%d", op.a, hexs(key(op.a), 12).c_str(), op.b, op.c, (op.d >> 2) & 7, op.d & 3); break;
        case T_GET: snprintf(b, sizeof b, "get key#%d=%s newmem=%d api%d", op.a, hexs(key(op.a), 12).c_str(), op.d & 1, (op.d >> 1) & 3); break;
        case T_REMOVE: snprintf(b, sizeof b, "remove key#%d=%s", op.a, hexs(key(op.a), 12).c_str()); break;
        case T_WALK: snprintf(b, sizeof b, "%d complete walk(s) newmem=%d", std::max(1, op.a), op.d & 1); break;
        case T_ABANDON: snprintf(b, sizeof b, "%d walk(s) started and abandoned after %d element(s)", std::max(1, op.b), std::max(1, op.a)); break;
        case T_NEAREST: snprintf(b, sizeof b, "find_nearest probe#%d=%s newmem=%d continue=%d limit=%d", op.a, hexs(probe(op.a), 12).c_str(), op.d & 1, (op.d >> 1) & 1, op.c); break;
        case T_BULK: snprintf(b, sizeof b, "bulk %s of %d keys in %s order", op.a < 2 ? "put" : "remove", op.b, (op.a & 1) ? "descending" : "ascending"); break;
        default: return World::render(op);
        }
        return b;
    }
};

std::string TreeModel::dump() const {
    Bytes o = "n=" + num((long long)m.size()) + ";";
    for (auto &kv : m) { if (kv.second.empty()) continue; enc(o, w->rep(kv.first)); enc(o, kv.second); }   // value-less keys are invisible to lookups; size and walks cover them
    return o;
}
Result TreeModel::apply(const Op &op) {
    switch (op.k) {
    case T_PUT: {
        if (op.d & NULLKEY) return R_fail();
        if (op.d & SELFREF) { auto it = m.find(w->key(op.a)); if (it == m.end() || it->second.empty()) return R_ok("skip"); it->second = it->second.substr((size_t)op.c % it->second.size()); return R_ok(); }
        Bytes k = w->key(op.a), v = w->value(op);
        if ((op.d & 3) >= 2) v = Bytes(v.c_str()) + Bytes(1, '\0');   // string APIs store strlen+1 bytes
        auto it = m.find(k);
        if (v.empty() && it != m.end() && !it->second.empty()) return R_ok("skip");
        if (it != m.end()) it->second = v; else m.emplace(k, v);
        return R_ok();
    }
    case T_GET: {
        if (op.d & NULLKEY) return R_fail();
        auto it = m.find(w->key(op.a));
        if (it == m.end() || it->second.empty()) return R_fail();    // a key stored without a value has nothing to return
        return R_ok(encs(it->second));
    }
    case T_REMOVE: {
        if (op.d & NULLKEY) return R_fail();
        auto it = m.find(w->key(op.a));
        if (it == m.end()) return R_fail();
        m.erase(it); return R_ok();
    }
    case T_CLEAR: m.clear(); return R_ok();
    case T_SIZE: return R_ok(num((long long)m.size()));
    case T_MIN: if (m.empty()) return R_fail(); return R_ok(encs(w->canon(m.begin()->first)));
    case T_MAX: if (m.empty()) return R_fail(); return R_ok(encs(w->canon(m.rbegin()->first)));
    case T_WALK: case T_LOCKEDWALK: {
        Bytes o; for (auto &kv : m) { enc(o, w->canon(kv.first)); enc(o, kv.second); }
        unfinished = false;
        return R_ok(o + "$");
    }
    case T_ABANDON: {
        int j = std::max(1, op.a), c = 0; Bytes o;
        for (auto &kv : m) { if (c >= j) break; enc(o, w->canon(kv.first)); enc(o, kv.second); c++; }
        if ((int)m.size() >= j) { unfinished = true; return R_ok(o); }   // stopped by the client before the end was reported
        unfinished = false;
        return R_ok(o + "$");
    }
    case T_NEAREST: {
        if (m.empty()) return R_fail();
        Bytes pk = w->probe(op.a);
        auto it = m.upper_bound(pk);           // first key > probe
        TMap::iterator f;
        if (it == m.begin()) f = m.begin();    // no key <= probe: the smallest key
        else f = std::prev(it);
        Bytes out; enc(out, w->canon(f->first)); enc(out, f->second);
        bool cont = (op.d >> 1) & 1;
        if (cont && !unfinished && !w->mt) {
            if (op.c > 0 && (int)m.size() >= op.c) {
                // partial continuation: stops after op.c elements (if the table has that many)
                unfinished = true; out += "|part";
            } else {
                std::vector<Bytes> seen;
                for (auto &kv : m) { Bytes e; enc(e, w->canon(kv.first)); enc(e, kv.second); seen.push_back(e); }
                std::sort(seen.begin(), seen.end());
                out += "|all:";
                for (auto &e : seen) out += e;
                unfinished = false;
            }
        }
        return R_ok(out);
    }
    case T_BULK: {
        int n = std::min((int)w->keys.size(), std::max(1, op.b));
        int okc = 0;
        std::vector<Bytes> ks(w->keys.begin(), w->keys.begin() + n);
        for (auto &k : ks) {
            if (op.a < 2) { Bytes v = gen_value(op.b, 3, 0); auto it = m.find(k); if (it != m.end()) it->second = v; else m.emplace(k, v); okc++; }
            else { auto it = m.find(k); if (it != m.end()) { m.erase(it); okc++; } }
        }
        return R_ok(num(okc));
    }
    case T_DEBUG: return R_ok();
    }
    return R_ok();
}

World *make_treetbl() { return new TreeWorld(); }
