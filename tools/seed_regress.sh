#!/bin/bash
# Re-run every kept seeded change against the check(s) recorded as catching it (regression of detection power).
# usage: tools/seed_regress.sh [budget_seconds]     (applies each patch to /repo and undoes it again)
cd /verif
export VERIF_BUDGET=${1:-24}
for d in seeded/C*/; do
  id=$(basename $d)
  props=$(python3 -c "
import json; m=json.load(open('$d/meta.json'))
ps=[c['property'] for c in m['checks'] if c['caught']]
print(' '.join(ps) if ps else m['breaks_property'])")
  SEED_SCRATCH=1 python3 tools/seed_eval.py run $id $props 2>&1 | grep -E "CAUGHT|MISSED" | cut -c1-140
done
echo ALLDONE
