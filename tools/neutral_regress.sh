#!/bin/bash
# Silence test: apply every behaviour-preserving refactoring of seeded/neutral to a scratch copy of /repo's sources and
# run the quick checks of the affected properties. Every line must end in rc=0 (or APPLY-FAILED for a patch written
# against an older base). usage: tools/neutral_regress.sh [budget_seconds]
cd /verif
B=${1:-8}
declare -A CH
CH[listtbl]="C08 C11 C12 C13 C14 C15"
CH[list]="C09 C11 C12 C13 C14 C15"
CH[vector]="C10 C11 C12 C13 C14 C15"
CH[hash]="C05 C06 C07 C11 C12 C13 C14 C15"
CH[tree]="C01 C02 C03 C04 C11 C12 C13 C14 C15"
CH[alt]="C01 C03 C04 C05 C06 C07 C11 C12 C13 C14 C15"
for d in seeded/neutral/*-R*/; do
  id=$(basename $d); k=${id%-R*}
  s=/var/tmp/qneutral-$id
  rm -rf $s; mkdir -p $s; cp -r /repo/src /repo/include $s/
  if ! patch -p1 -s -d $s < $d/patch.diff >/dev/null 2>&1; then echo "$id APPLY-FAILED"; rm -rf $s; continue; fi
  for c in ${CH[$k]}; do
    out=$(QLIBC_REPO=$s VERIF_BUDGET=$B VERIF_NOEVIDENCE=1 VERIF_REPLAY_DIR=$s/replays python3 verif.py check $c 2>&1); rc=$?
    echo "$id $c rc=$rc $(echo "$out" | grep 'class=' | head -2 | tr '\n' ' ' | cut -c1-200) $(echo "$out" | grep HARNESS | head -1 | cut -c1-160)"
  done
  rm -rf $s
done
echo ALLDONE
