#!/usr/bin/env python3
"""Systematic sensitivity test: small syntactic mutants of the container sources, each run through the quick checks.

  mutate.py gen [--per-file N] [--seed S]      write /verif/mutation/mutants.jsonl (id, file, line, operator, before, after)
  mutate.py run [--jobs J] [--budget B] [--only id,...]   evaluate mutants not yet in results.jsonl (scratch copies under /var/tmp)
  mutate.py report                             summary + list of survivors

A mutant is "killed" when some check exits 1 with a VIOLATION line, "stillborn" when it does not compile,
"survived" when every relevant check exits 0. Survivors are either equivalent mutants or blind spots; they are
triaged by hand in mutation/triage.md.
"""
import sys, os, re, json, random, subprocess, shutil, time
from concurrent.futures import ThreadPoolExecutor

ROOT = "/verif"
REPO = "/repo"
OUT = os.path.join(ROOT, "mutation")
FILES = {
    "src/containers/qtreetbl.c": ["C01", "C03", "C04", "C02", "C15", "C14", "C13", "C12", "C11"],
    "src/containers/qhashtbl.c": ["C05", "C15", "C14", "C13", "C12", "C11"],
    "src/containers/qhasharr.c": ["C06", "C07", "C15", "C12", "C11"],
    "src/containers/qlisttbl.c": ["C08", "C15", "C14", "C13", "C12", "C11"],
    "src/containers/qlist.c": ["C09", "C15", "C14", "C13", "C12", "C11"],
    "src/containers/qqueue.c": ["C09", "C15", "C12"],
    "src/containers/qstack.c": ["C09", "C15", "C12"],
    "src/containers/qgrow.c": ["C09", "C15", "C12"],
    "src/containers/qvector.c": ["C10", "C15", "C14", "C13", "C12", "C11"],
    "src/internal/qinternal.h": ["C14", "C13", "C15", "C09"],
    "src/extensions/qlog.c": ["C14"],
    # shared utilities the containers are built on (only the functions the containers call, see RANGES)
    "src/utilities/qstring.c": ["C01", "C12", "C11", "C15"],
    "src/utilities/qhash.c": ["C05", "C06", "C07", "C11", "C08"],
}
RANGES = {"src/utilities/qstring.c": [(413, 426)], "src/utilities/qhash.c": [(67, 96), (263, 318)]}
SKIP_FUNCS = re.compile(r"_debug\b|print_node|print_branch|_q_textout")


def code_lines(path):
    """yield (lineno, text) for lines that are code inside function bodies (not comments / preprocessor / declarations)"""
    src = open(os.path.join(REPO, path)).read().split("\n")
    in_comment = False
    depth = 0
    skipping = False
    rng = RANGES.get(path) if "RANGES" in globals() else None
    for i, line in enumerate(src):
        s = line.strip()
        if rng and not any(lo <= i + 1 <= hi for lo, hi in rng):
            # still track comments/braces below, but never yield
            pass
        if in_comment:
            if "*/" in s:
                in_comment = False
            continue
        if s.startswith("/*"):
            if "*/" not in s:
                in_comment = True
            continue
        if s.startswith("//") or s.startswith("#") and not path.endswith(".h"):
            continue
        if path.endswith(".h"):
            # only the Q_MUTEX macro bodies
            if not (s.endswith("\\") and not s.startswith("#define")):
                continue
            if "DEBUG(" in s:
                continue
            yield i, line
            continue
        opens, closes = line.count("{"), line.count("}")
        if depth == 0 and opens:
            skipping = bool(SKIP_FUNCS.search(line)) or bool(SKIP_FUNCS.search(src[i - 1] if i else ""))
        if depth > 0 and not skipping and "DEBUG(" not in s and "assert(" not in s and "->debug" not in s and "fprintf" not in s:
            yield i, line
        depth += opens - closes
        if depth <= 0:
            depth = 0
            skipping = False


ROR = [(" < ", " <= "), (" <= ", " < "), (" > ", " >= "), (" >= ", " > "), (" == ", " != "), (" != ", " == ")]
LCR = [(" && ", " || "), (" || ", " && ")]
AOR = [(" + 1", ""), (" - 1", ""), ("++", "--"), (" + ", " - "), (" - ", " + ")]
SDL = re.compile(r"^\s+(free\(|\w+_unlock\(|\w+->unlock\(|Q_MUTEX_LEAVE\(|[\w\->\.\[\]\*\(\) ]+\s(=|\+=|-=)\s[^=].*|[\w\->\.\[\]\(\)]+(\+\+|--));\s*(\\)?$")
CONST = [("true", "false"), ("false", "true"), ("NULL;", "(void*)1;"), (" 0;", " 1;"), ("-1", "0")]


def _in_range(path, i):
    rng = RANGES.get(path)
    return (not rng) or any(lo <= i + 1 <= hi for lo, hi in rng)


def gen(per_file, seed, ops2=False, prefix="M"):
    rnd = random.Random(seed)
    os.makedirs(OUT, exist_ok=True)
    allm = []
    for path in FILES:
        cands = []
        for i, line in code_lines(path):
            if not _in_range(path, i):
                continue
            for group, name in (() if ops2 else ((ROR, "ROR"), (LCR, "LCR"), (AOR, "AOR"), (CONST, "CONST"))):
                for a, b in group:
                    start = 0
                    while True:
                        k = line.find(a, start)
                        if k < 0:
                            break
                        # not inside a string literal (crude) and not "->"
                        if line[:k].count('"') % 2 == 0 and not (a in ("-1",) and k > 0 and line[k - 1].isalnum()):
                            cands.append((i, name, line, line[:k] + b + line[k + len(a):]))
                        start = k + len(a)
            if ops2:
                # second operator set: negated conditions, deleted break/continue, swapped neighbour links, off-by-one sizes
                m = re.match(r"^(\s*(?:\} else )?if \()(.*)(\) \{\s*)$", line)
                if m and "&&" not in m.group(2) and "||" not in m.group(2):
                    cands.append((i, "NEG", line, m.group(1) + "!(" + m.group(2) + ")" + m.group(3)))
                if re.match(r"^\s+(break|continue);\s*$", line):
                    cands.append((i, "BRK", line, re.match(r"^\s*", line).group(0) + ";"))
                for a, b in (("->next", "->prev"), ("->prev", "->next"), ("->left", "->right"), ("->right", "->left"), ("->first", "->last"), ("->last", "->first")):
                    k = line.find(a)
                    if k >= 0 and line[:k].count('"') % 2 == 0:
                        cands.append((i, "LNK", line, line[:k] + b + line[k + len(a):]))
                for fn in ("malloc(", "memcpy(", "memmove(", "calloc(", "realloc(", "memset("):
                    k = line.find(fn)
                    if k >= 0 and line.rstrip().endswith(");"):
                        e = line.rstrip().rfind(");")
                        cands.append((i, "SIZ", line, line[:e] + " - 1);"))
                        cands.append((i, "SIZ", line, line[:e] + " + 1);"))
            if not ops2 and SDL.match(line) and "return" not in line and not re.match(r"^\s+(int|size_t|bool|char|void|uint\w+|q\w+_t)\b", line):
                cont = " \\" if line.rstrip().endswith("\\") else ""
                cands.append((i, "SDL", line, re.match(r"^\s*", line).group(0) + ";" + cont))
        rnd.shuffle(cands)
        # spread over operators
        chosen, per_op = [], {}
        for c in cands:
            if per_op.get(c[1], 0) >= per_file // 3 + 2:
                continue
            chosen.append(c)
            per_op[c[1]] = per_op.get(c[1], 0) + 1
            if len(chosen) >= per_file:
                break
        for c in chosen:
            allm.append(dict(file=path, line=c[0] + 1, op=c[1], before=c[2].strip(), after=c[3].strip(), _after_raw=c[3]))
    existing = load("mutants.jsonl") if prefix != "M" else []
    seen = {(m["file"], m["line"], m["after"]) for m in existing}
    allm = [m for m in allm if (m["file"], m["line"], m["after"]) not in seen]
    for n, m in enumerate(allm):
        m["id"] = "%s%04d" % (prefix, n)
    with open(os.path.join(OUT, "mutants.jsonl"), "a" if prefix != "M" else "w") as f:
        for m in allm:
            f.write(json.dumps(m) + "\n")
    print("generated", len(allm), "mutants")


def load(name):
    p = os.path.join(OUT, name)
    return [json.loads(l) for l in open(p)] if os.path.exists(p) else []


def evaluate(m, budget, jobs):
    d = "/var/tmp/qmut-%s" % m["id"]
    shutil.rmtree(d, ignore_errors=True)
    os.makedirs(d)
    shutil.copytree(os.path.join(REPO, "src"), os.path.join(d, "src"))
    shutil.copytree(os.path.join(REPO, "include"), os.path.join(d, "include"))
    p = os.path.join(d, m["file"])
    lines = open(p).read().split("\n")
    if lines[m["line"] - 1].strip() != m["before"]:
        shutil.rmtree(d, ignore_errors=True)
        return dict(m, status="stale")
    lines[m["line"] - 1] = m["_after_raw"]
    open(p, "w").write("\n".join(lines))
    env = dict(os.environ, QLIBC_REPO=d, VERIF_BUDGET=str(budget), VERIF_JOBS=str(jobs), VERIF_NOEVIDENCE="1", VERIF_REPLAY_DIR=os.path.join(d, "replays"))
    res = dict(m, status="survived", checks=[])
    t0 = time.time()
    for c in FILES[m["file"]]:
        r = subprocess.run(["python3", os.path.join(ROOT, "verif.py"), "check", c], cwd=ROOT, env=env, stdout=subprocess.PIPE, stderr=subprocess.STDOUT, text=True)
        cls = [l.strip() for l in r.stdout.splitlines() if l.strip().startswith("class=")]
        res["checks"].append(dict(check=c, rc=r.returncode, cls=cls[:1]))
        if "SUT-BUILD-ERROR" in r.stdout:
            res["status"] = "stillborn"
            break
        if r.returncode == 1 and "VIOLATION" in r.stdout:
            res["status"] = "killed"; res["killed_by"] = c; res["class"] = cls[0] if cls else ""
            break
        if r.returncode == 2:
            res["harness_error"] = [l for l in r.stdout.splitlines() if "HARNESS" in l or "ERROR" in l][:2]
    res["seconds"] = round(time.time() - t0)
    res.pop("_after_raw", None)
    shutil.rmtree(d, ignore_errors=True)
    return res


def run(jobs, budget, only):
    ms = load("mutants.jsonl")
    done = {r["id"] for r in load("results.jsonl")}
    todo = [m for m in ms if (m["id"] in only) or (not only and m["id"] not in done)]
    print("to evaluate:", len(todo))
    out = open(os.path.join(OUT, "rerun.jsonl" if only else "results.jsonl"), "a")
    par = max(1, (os.cpu_count() or 8) // jobs)
    with ThreadPoolExecutor(par) as ex:
        for r in ex.map(lambda m: evaluate(m, budget, jobs), todo):
            out.write(json.dumps(r) + "\n"); out.flush()
            print(r["id"], r["file"].split("/")[-1], r["line"], r["op"], r["status"], r.get("killed_by", ""), r.get("class", "")[:60], flush=True)


def report():
    rs = load("results.jsonl")
    by = {}
    for r in rs:
        by.setdefault(r["status"], []).append(r)
    print({k: len(v) for k, v in by.items()})
    k, s = len(by.get("killed", [])), len(by.get("survived", []))
    if k + s:
        print("mutation score (killed / (killed+survived)): %.1f%%" % (100.0 * k / (k + s)))
    for r in by.get("survived", []):
        print("SURVIVED", r["id"], r["file"].split("/")[-1], r["line"], r["op"], "|", r["before"], "=>", r["after"], "|", r.get("harness_error", ""))


if __name__ == "__main__":
    a = sys.argv[1:]
    def opt(name, d):
        return type(d)(a[a.index(name) + 1]) if name in a else d
    if a[0] == "gen":
        gen(opt("--per-file", 50), opt("--seed", 7), "--ops2" in a, opt("--prefix", "M"))
    elif a[0] == "run":
        only = set(opt("--only", "").split(",")) - {""}
        run(opt("--jobs", 4), opt("--budget", 4.0), only)
    elif a[0] == "report":
        report()
