#!/usr/bin/env python3
"""Print the summary table of DESIGN.md section 12 from the evidence files the checks wrote (evidence/C*.json)."""
import json, glob, os

ROOT = os.path.dirname(os.path.dirname(os.path.abspath(__file__)))


def k(n):
    if n >= 1e6:
        return "%.2f M" % (n / 1e6)
    if n >= 1e3:
        return "%.0f k" % (n / 1e3)
    return str(n)


print("| check | tier | runs | distinct non-trivial | seeds/hour | operations | faults fired (kind: fired/planned) | variants | wall s |")
print("|---|---|---|---|---|---|---|---|---|")
for f in sorted(glob.glob(os.path.join(ROOT, "evidence", "C*.json"))):
    e = json.load(open(f))
    c = e["coverage"]
    faults = ", ".join("%s %s/%s" % (n, k(v["fired"]), k(v["planned"])) for n, v in sorted(c.get("faults", {}).items())) or "-"
    fe = c.get("fault_enumeration", {})
    if fe.get("targets"):
        faults += "; %s targets x %s allocation points" % (k(fe["targets"]), k(fe["allocation_points"]))
    variants = ", ".join("%s %s" % (n, k(v["runs"])) for n, v in c.get("variants", {}).items())
    print("| %s | %s | %s | %s | %s | %s | %s | %s | %s |" % (
        e["property_id"], e["tier"], k(c["runs"]), k(c["distinct_nontrivial"]), k(c["seeds_per_hour"]),
        k(c["sim_steps"]["operations"]), faults, variants, e["wall_s"]))
    assert e["violations"] == 0, f
