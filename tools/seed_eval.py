#!/usr/bin/env python3
"""Verify a seeded change produced by an independent sub-agent and evaluate the checks against it.

  seed_eval.py verify <Cxx> <A|B>     confirm in the agent's scratch worktree: builds, 10/10 tests pass, demo fails with / passes without
  seed_eval.py keep   <Cxx> <A|B>     copy into /verif/seeded/<Cxx>-<X>/ (patch.diff, demo.c, README.md, meta.json)
  seed_eval.py run    <seedid> [props...]   apply to /repo, run the quick checks of the given properties (default: the seeded one), undo, record in meta.json
"""
import sys, os, re, json, subprocess, shutil, time

def sh(cmd, **kw):
    return subprocess.run(cmd, shell=isinstance(cmd, str), stdout=subprocess.PIPE, stderr=subprocess.STDOUT, text=True, **kw)

def demo_flags(demo):
    head = open(demo).read()[:4000]
    flags = []
    for m in re.findall(r"-fsanitize=[\w,]+", head): 
        if m not in flags: flags.append(m)
    for m in re.findall(r"-Wl,--wrap=[\w,=-]+", head):
        for part in m.split(","):
            pass
        if m not in flags: flags.append(m)
    for m in re.findall(r"(?<!\w)-D\w+(?:=\w+)?", head):
        if m not in flags and m not in ("-DCMAKE_BUILD_TYPE=RelWithDebInfo",): flags.append(m)
    for m in re.findall(r"-fno-[\w-]+(?:=[\w,]+)?", head):
        if m not in flags: flags.append(m)
    if "-O0" in head: flags.append("-O0")
    return flags

def build_demo(wt, demo, out, flags):
    srcs = "%s/src/containers/*.c %s/src/utilities/*.c %s/src/internal/*.c %s/src/internal/md5/*.c %s/src/ipc/*.c" % ((wt,)*5)
    opt = "" if "-O0" in flags else "-O1"
    if "qlog" in open(demo).read():
        srcs += " %s/src/extensions/qlog.c" % wt
        flags = flags + ["-I%s/include/qlibc/extensions" % wt]
    cmd = "gcc -std=gnu99 %s -g -w -I%s/include/qlibc -I%s/include -I%s/src/internal %s %s %s -lpthread -lm -o %s" % (opt, wt, wt, wt, " ".join(flags), demo, srcs, out)
    return sh(cmd), cmd

ROOT_PREFIX = os.environ.get("SEED_ROOT", "qm")      # qm = round 1, qn = round 2
KEEP_AS = {"qm": {"A": "A", "B": "B"}, "qn": {"A": "C", "B": "D"}, "qo": {"A": "E", "B": "F"}, "qp": {"A": "G", "B": "H"}}

def verify(pid, x):
    wt = "/tmp/%s-%s" % (ROOT_PREFIX, pid)
    d = "/tmp/%s-%s-out/%s" % (ROOT_PREFIX, pid, x)
    res = {"property": pid, "variant": x}
    sh("git -C %s checkout -- ." % wt)
    r = sh("git -C %s apply --check %s/patch.diff" % (wt, d))
    if r.returncode: return dict(res, ok=False, why="patch does not apply: " + r.stdout[:200])
    flags = demo_flags(d + "/demo.c")
    # original
    r, cmd = build_demo(wt, d + "/demo.c", d + "/demo_orig", flags)
    if r.returncode: return dict(res, ok=False, why="demo does not compile on original: " + r.stdout[-400:], cmd=cmd)
    ro = sh("timeout 300 %s/demo_orig" % d, cwd=d)
    sh("git -C %s apply %s/patch.diff" % (wt, d))
    r, cmd = build_demo(wt, d + "/demo.c", d + "/demo_mut", flags)
    if r.returncode:
        sh("git -C %s checkout -- ." % wt); return dict(res, ok=False, why="demo does not compile with change: " + r.stdout[-400:])
    rm = sh("timeout 300 %s/demo_mut" % d, cwd=d)
    # tests with the change
    t0 = time.time()
    rb = sh("cmake -G Ninja -S %s -B %s/_build -DCMAKE_BUILD_TYPE=RelWithDebInfo >/dev/null && cmake --build %s/_build 2>&1 | tail -3 && ctest --test-dir %s/_build -j8 --timeout 900 2>&1 | tail -6" % (wt, wt, wt, wt))
    sh("git -C %s checkout -- ." % wt)
    tests_ok = "100% tests passed, 0 tests failed out of 10" in rb.stdout
    ok = ro.returncode == 0 and rm.returncode != 0 and tests_ok
    for f in ("demo_orig", "demo_mut"):
        try: os.unlink(d + "/" + f)
        except OSError: pass
    return dict(res, ok=ok, demo_flags=flags, demo_on_original_exit=ro.returncode, demo_with_change_exit=rm.returncode, demo_with_change_tail=rm.stdout[-300:],
                tests_pass_with_change=tests_ok, tests_tail=rb.stdout[-300:], test_seconds=round(time.time()-t0))

def keep(pid, x, v):
    sid = "%s-%s" % (pid, KEEP_AS[ROOT_PREFIX][x])
    dst = "/verif/seeded/" + sid
    os.makedirs(dst, exist_ok=True)
    src = "/tmp/%s-%s-out/%s" % (ROOT_PREFIX, pid, x)
    for f in ("patch.diff", "demo.c", "README.md"):
        shutil.copy(os.path.join(src, f), os.path.join(dst, f))
    readme = open(os.path.join(src, "README.md")).read()
    meta = {"id": sid, "breaks_property": pid, "source": "independent sub-agent given only the property text and a scratch worktree",
            "needs_to_manifest": "see README.md (written by the sub-agent)", "confirmed": v, "checks": []}
    json.dump(meta, open(os.path.join(dst, "meta.json"), "w"), indent=1)
    return dst

def run(sid, props):
    dst = "/verif/seeded/" + sid
    meta = json.load(open(dst + "/meta.json"))
    props = props or [meta["breaks_property"]]
    scratch = os.environ.get("SEED_SCRATCH")          # evaluate on a scratch copy instead of /repo itself (e.g. while a soak uses /repo)
    env = dict(os.environ)
    if scratch:
        d = "/var/tmp/qseed-%s" % sid
        shutil.rmtree(d, ignore_errors=True); os.makedirs(d)
        shutil.copytree("/repo/src", d + "/src"); shutil.copytree("/repo/include", d + "/include")
        r = sh("patch -p1 -s -d %s < %s/patch.diff" % (d, dst))
        assert r.returncode == 0, r.stdout
        env.update(QLIBC_REPO=d, VERIF_NOEVIDENCE="1", VERIF_REPLAY_DIR=d + "/replays")
    else:
        assert sh("git -C /repo status --porcelain --untracked-files=no").stdout.strip() == "", "/repo not clean"
        r = sh("git -C /repo apply %s/patch.diff" % dst)
        assert r.returncode == 0, r.stdout
    out = []
    try:
        for p in props:
            t0 = time.time()
            r = sh("python3 /verif/verif.py check %s --tier quick" % p, cwd="/verif", env=env)
            viol = [l for l in r.stdout.splitlines() if l.startswith("VIOLATION")]
            cls = [l.strip() for l in r.stdout.splitlines() if l.strip().startswith("class=")]
            rec = {"property": p, "cmd": "git -C /repo apply seeded/%s/patch.diff; python3 verif.py check %s --tier quick; git -C /repo checkout -- ." % (sid, p),
                   "exit": r.returncode, "caught": r.returncode == 1 and bool(viol), "violations": len(viol), "classes": cls[:4], "summary": r.stdout.strip().splitlines()[-1][:300] if r.stdout.strip() else "",
                   "seconds": round(time.time()-t0)}
            out.append(rec)
            print(sid, p, "CAUGHT" if rec["caught"] else "MISSED", rec["exit"], cls[:2])
    finally:
        if scratch:
            shutil.rmtree("/var/tmp/qseed-%s" % sid, ignore_errors=True)
        else:
            sh("git -C /repo checkout -- .")
            sh("find /verif/replays -name '*.json' -delete")
    meta["checks"] = [c for c in meta["checks"] if c["property"] not in props] + out
    json.dump(meta, open(dst + "/meta.json", "w"), indent=1)

if __name__ == "__main__":
    a = sys.argv[1:]
    if a[0] == "verify":
        v = verify(a[1], a[2]); print(json.dumps(v, indent=1))
        if v["ok"]: print("kept in", keep(a[1], a[2], v))
    elif a[0] == "run":
        run(a[1], a[2:])
