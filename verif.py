#!/usr/bin/env python3
"""Orchestrator for the qlibc deterministic-simulation checks (stdlib only).

  verif.py build                          build/cached harness objects for all variants (setup_cmd)
  verif.py check <Cxx> [--tier quick|thorough]
  verif.py replay <file> [--verbose]
  verif.py selfcheck                      determinism of the simulator itself
"""
import sys, os, json, subprocess, hashlib, shutil, time, glob, signal, atexit, re
from concurrent.futures import ThreadPoolExecutor

ROOT = os.path.dirname(os.path.abspath(__file__))
REPO = os.environ.get("QLIBC_REPO", "/repo")
BUILD = os.path.join(ROOT, "build")
QSIM = os.path.join(ROOT, "qsim")
NCPU = int(os.environ.get("VERIF_JOBS", os.cpu_count() or 8))

SUT_DIRS = ["src/containers", "src/utilities", "src/internal", "src/internal/md5", "src/ipc"]
SUT_EXTRA = ["src/extensions/qlog.c"]
INCLUDES = ["-I%s/include/qlibc" % REPO, "-I%s/include" % REPO, "-I%s/src/internal" % REPO]
WRAPS = "malloc,calloc,realloc,strdup,free,pthread_mutex_trylock,pthread_mutex_unlock,usleep,time"
NOBUILTIN = ["-fno-builtin-malloc", "-fno-builtin-calloc", "-fno-builtin-realloc", "-fno-builtin-strdup", "-fno-builtin-free"]
SHIPPED = ["-std=gnu99", "-O2", "-g", "-DNDEBUG"]

VARIANTS = {
    "plain": dict(sut=[], har=[], link=[], defs=[]),
    "asan": dict(sut=["-fsanitize=address,undefined", "-fno-sanitize-recover=undefined", "-fno-omit-frame-pointer"],
                 har=["-fsanitize=address,undefined", "-fno-omit-frame-pointer"], link=["-fsanitize=address,undefined"], defs=["-DQSIM_ASAN"]),
    # harness is NOT instrumented under tsan (DESIGN 2.4): only qlibc's accesses are visible to the race detector
    "tsan": dict(sut=["-fsanitize=thread", "-fno-omit-frame-pointer"], har=[], link=["-fsanitize=thread"], defs=["-DQSIM_TSAN"]),
}
HARNESS_SRCS = ["core.cpp", "seams.cpp", "run.cpp", "linz.cpp", "main.cpp", "worlds.cpp"]
WORLD_SRCS = [("treetbl", 1, "w_treetbl.cpp"), ("hashtbl", 2, "w_hashtbl.cpp"), ("hasharr", 4, "w_hasharr.cpp"), ("listtbl", 8, "w_listtbl.cpp"),
              ("list", 16, "w_list.cpp"), ("vector", 32, "w_vector.cpp"), ("qlog", 64, "w_qlog.cpp")]

_tmpdirs = []


def _cleanup():
    for d in _tmpdirs:
        shutil.rmtree(d, ignore_errors=True)


atexit.register(_cleanup)


def sh(cmd, **kw):
    return subprocess.run(cmd, stdout=subprocess.PIPE, stderr=subprocess.STDOUT, text=True, **kw)


def repo_sources():
    srcs = []
    for d in SUT_DIRS:
        srcs += sorted(glob.glob(os.path.join(REPO, d, "*.c")))
    srcs += [os.path.join(REPO, f) for f in SUT_EXTRA if os.path.exists(os.path.join(REPO, f))]
    return srcs


def header_digest():
    h = hashlib.sha256()
    files = sorted(glob.glob(os.path.join(REPO, "include", "**", "*.h"), recursive=True)) + sorted(glob.glob(os.path.join(QSIM, "*")))
    for f in files:
        if os.path.isfile(f):
            h.update(f.encode())
            h.update(open(f, "rb").read())
    return h.hexdigest()[:16]


def build_harness(variant, log):
    """Compile harness objects for a variant (cached on the digest of harness sources + repo headers). Returns (objs, worlds_mask, notes)."""
    v = VARIANTS[variant]
    key = header_digest()
    d = os.path.join(BUILD, "harness", variant + "-" + key)
    stamp = os.path.join(d, "STAMP.json")
    if os.path.exists(stamp):
        st = json.load(open(stamp))
        return [os.path.join(d, o) for o in st["objs"]], st["mask"], st["notes"]
    # drop stale caches of this variant
    for old in glob.glob(os.path.join(BUILD, "harness", variant + "-*")):
        shutil.rmtree(old, ignore_errors=True)
    os.makedirs(d, exist_ok=True)
    cxx = ["g++", "-std=c++17", "-O1", "-g", "-Wall", "-Wno-unused-function", "-I" + QSIM] + INCLUDES + v["har"] + v["defs"]
    jobs = []
    present = [(n, bit, s) for (n, bit, s) in WORLD_SRCS if os.path.exists(os.path.join(QSIM, s))]
    for s in HARNESS_SRCS + [s for (_, _, s) in present]:
        if s == "worlds.cpp":
            continue
        jobs.append((s, cxx + ["-c", os.path.join(QSIM, s), "-o", os.path.join(d, s.replace(".cpp", ".o"))]))
    with ThreadPoolExecutor(NCPU) as ex:
        res = list(ex.map(lambda j: (j[0], sh(j[1])), jobs))
    objs, mask, notes = [], 0, []
    world_of = {s: (n, bit) for (n, bit, s) in present}
    for s, r in res:
        if r.returncode != 0:
            if s in world_of:
                # degrade: a refactoring of /repo that renames a private field must not turn checks red (DESIGN 2.9)
                notes.append("world %s unavailable: adapter does not compile against this tree" % world_of[s][0])
                log.write("== %s failed to compile:\n%s\n" % (s, r.stdout))
                continue
            sys.stderr.write(r.stdout)
            raise SystemExit("HARNESS-BUILD-ERROR in %s (variant %s)" % (s, variant))
        if s in world_of:
            mask |= world_of[s][1]
        objs.append(s.replace(".cpp", ".o"))
    r = sh(cxx + ["-DQSIM_WORLDS=%d" % mask, "-c", os.path.join(QSIM, "worlds.cpp"), "-o", os.path.join(d, "worlds.o")])
    if r.returncode != 0:
        sys.stderr.write(r.stdout)
        raise SystemExit("HARNESS-BUILD-ERROR in worlds.cpp")
    objs.append("worlds.o")
    json.dump({"objs": objs, "mask": mask, "notes": notes}, open(stamp, "w"))
    return [os.path.join(d, o) for o in objs], mask, notes


def build_variant(variant, rundir, log):
    """Compile the SUT from /repo's working tree (always), link with cached harness objects. Returns path of qsim binary."""
    v = VARIANTS[variant]
    out = os.path.join(rundir, variant)
    os.makedirs(os.path.join(out, "sut"), exist_ok=True)
    cc = ["gcc"] + SHIPPED + NOBUILTIN + INCLUDES + v["sut"]
    srcs = repo_sources()
    jobs = []
    for s in srcs:
        o = os.path.join(out, "sut", os.path.relpath(s, REPO).replace("/", "_").replace(".c", ".o"))
        jobs.append((s, o, cc + ["-c", s, "-o", o]))
    with ThreadPoolExecutor(NCPU) as ex:
        res = list(ex.map(lambda j: (j, sh(j[2])), jobs))
    for (s, o, _), r in res:
        if r.returncode != 0:
            sys.stderr.write(r.stdout)
            raise SystemExit("SUT-BUILD-ERROR: %s does not compile" % s)
    hobjs, mask, notes = build_harness(variant, log)
    exe = os.path.join(out, "qsim")
    link = ["g++", "-o", exe] + hobjs + [j[1] for j in jobs] + ["-Wl,--wrap=" + w for w in WRAPS.split(",")] + ["-lpthread", "-lm"] + v["link"]
    r = sh(link)
    if r.returncode != 0:
        sys.stderr.write(r.stdout)
        raise SystemExit("LINK-ERROR (variant %s)" % variant)
    return exe, mask, notes


def new_rundir():
    d = os.path.join(BUILD, "run-%d-%d" % (os.getpid(), int(time.time() * 1000) % 100000))
    os.makedirs(d, exist_ok=True)
    _tmpdirs.append(d)
    return d


def cmd_build(args):
    os.makedirs(BUILD, exist_ok=True)
    rundir = new_rundir()
    log = open(os.path.join(rundir, "build.log"), "w")
    t0 = time.time()
    for variant in VARIANTS:
        exe, mask, notes = build_variant(variant, rundir, log)
        r = sh([exe, "worlds"])
        print("built %s: worlds=%s %s" % (variant, ",".join(r.stdout.split()), "; ".join(notes)))
    print("build ok in %.1fs" % (time.time() - t0))
    return 0


def cmd_dev(args):
    """developer helper: build one variant into build/dev (kept)"""
    d = os.path.join(BUILD, "dev")
    os.makedirs(d, exist_ok=True)
    log = open(os.path.join(d, "build.log"), "w")
    for variant in (args or ["plain"]):
        exe, mask, notes = build_variant(variant, d, log)
        print(exe, notes)
    return 0


def main(argv):
    if not argv:
        print(__doc__)
        return 2
    if argv[0] == "build":
        return cmd_build(argv[1:])
    if argv[0] == "dev":
        return cmd_dev(argv[1:])
    print(__doc__)
    return 2


if __name__ == "__main__":
    sys.exit(main(sys.argv[1:]))
