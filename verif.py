#!/usr/bin/env python3
"""Orchestrator for the qlibc deterministic-simulation checks (stdlib only).

  verif.py build                          build/cached harness objects for all variants (setup_cmd)
  verif.py check <Cxx> [--tier quick|thorough]
  verif.py replay <file> [--verbose]
  verif.py selfcheck                      determinism of the simulator itself
"""
import tempfile, sys, os, json, subprocess, hashlib, shutil, time, glob, signal, atexit, re, threading
from concurrent.futures import ThreadPoolExecutor

ROOT = os.path.dirname(os.path.abspath(__file__))
REPO = os.environ.get("QLIBC_REPO", "/repo")
BUILD = os.path.join(ROOT, "build")
QSIM = os.path.join(ROOT, "qsim")
NCPU = int(os.environ.get("VERIF_JOBS", os.cpu_count() or 8))

SUT_DIRS = ["src/containers", "src/utilities", "src/internal", "src/internal/md5", "src/ipc"]
SUT_EXTRA = ["src/extensions/qlog.c"]
INCLUDES = ["-I%s/include/qlibc" % REPO, "-I%s/include" % REPO, "-I%s/src/internal" % REPO]
WRAPS = "malloc,calloc,realloc,strdup,free,pthread_mutex_trylock,pthread_mutex_lock,pthread_mutex_timedlock,pthread_mutex_clocklock,pthread_mutex_unlock,usleep,time,fopen,write"
NOBUILTIN = ["-fno-builtin-malloc", "-fno-builtin-calloc", "-fno-builtin-realloc", "-fno-builtin-strdup", "-fno-builtin-free"]
SHIPPED = ["-std=gnu99", "-O2", "-g", "-DNDEBUG"]

VARIANTS = {
    "plain": dict(sut=[], har=[], link=[], defs=[]),
    "asan": dict(sut=["-fsanitize=address,undefined", "-fno-sanitize-recover=undefined", "-fno-omit-frame-pointer"],
                 har=["-fsanitize=address,undefined", "-fno-omit-frame-pointer"], link=["-fsanitize=address,undefined"], defs=["-DQSIM_ASAN"]),
    # harness is NOT instrumented under tsan (DESIGN 2.4): only qlibc's accesses are visible to the race detector
    "tsan": dict(sut=["-fsanitize=thread", "-fno-omit-frame-pointer"], har=[], link=["-fsanitize=thread"], defs=["-DQSIM_TSAN"]),
}
HARNESS_SRCS = ["core.cpp", "seams.cpp", "run.cpp", "linz.cpp", "main.cpp", "worlds.cpp"]
WORLD_SRCS = [("treetbl", 1, "w_treetbl.cpp"), ("hashtbl", 2, "w_hashtbl.cpp"), ("hasharr", 4, "w_hasharr.cpp"), ("listtbl", 8, "w_listtbl.cpp"),
              ("list", 16, "w_list.cpp"), ("vector", 32, "w_vector.cpp"), ("qlog", 64, "w_qlog.cpp")]

_tmpdirs = []


def _cleanup():
    for d in _tmpdirs:
        shutil.rmtree(d, ignore_errors=True)


atexit.register(_cleanup)


def sh(cmd, **kw):
    return subprocess.run(cmd, stdout=subprocess.PIPE, stderr=subprocess.STDOUT, text=True, **kw)


def repo_sources():
    srcs = []
    for d in SUT_DIRS:
        srcs += sorted(glob.glob(os.path.join(REPO, d, "*.c")))
    srcs += [os.path.join(REPO, f) for f in SUT_EXTRA if os.path.exists(os.path.join(REPO, f))]
    return srcs


def header_digest():
    h = hashlib.sha256()
    files = sorted(glob.glob(os.path.join(REPO, "include", "**", "*.h"), recursive=True)) + sorted(glob.glob(os.path.join(QSIM, "*")))
    for f in files:
        if os.path.isfile(f):
            # relative names: the same tree at another path (a scratch worktree) shares the cache
            h.update(os.path.relpath(f, REPO if f.startswith(REPO + os.sep) else QSIM).encode())
            h.update(open(f, "rb").read())
    # the compile flags live in this file; another compiler produces other objects
    h.update(open(os.path.abspath(__file__), "rb").read())
    h.update(sh(["g++", "--version"]).stdout.encode())
    return h.hexdigest()[:16]


def build_harness(variant, log):
    """Compile harness objects for a variant (cached on the digest of harness sources + repo headers). Returns (objs, worlds_mask, notes)."""
    v = VARIANTS[variant]
    key = header_digest()
    d = os.path.join(BUILD, "harness", variant + "-" + key)
    stamp = os.path.join(d, "STAMP.json")
    try:
        st = json.load(open(stamp))
        os.utime(d)          # in use: the pruning below goes by age
        return [os.path.join(d, o) for o in st["objs"]], st["mask"], st["notes"]
    except (OSError, ValueError):
        pass                 # not there (or being removed by a concurrent check): build it
    # build into a private directory and publish it atomically: concurrent checks may share the cache
    final_d = d
    d = final_d + ".tmp%d" % os.getpid()
    shutil.rmtree(d, ignore_errors=True)
    os.makedirs(d, exist_ok=True)
    cxx = ["g++", "-std=c++17", "-O1", "-g", "-Wall", "-Wno-unused-function", "-I" + QSIM] + INCLUDES + v["har"] + v["defs"]
    jobs = []
    present = [(n, bit, s) for (n, bit, s) in WORLD_SRCS if os.path.exists(os.path.join(QSIM, s))]
    for s in HARNESS_SRCS + [s for (_, _, s) in present]:
        if s == "worlds.cpp":
            continue
        jobs.append((s, cxx + ["-c", os.path.join(QSIM, s), "-o", os.path.join(d, s.replace(".cpp", ".o"))]))
    degraded = []

    def compile_one(j):
        r = sh(j[1])
        if r.returncode != 0 and j[0].startswith("w_"):
            # degrade, don't false-alarm (DESIGN 2.9): a tree that renamed a private field the adapter reads is still checked
            # through the API-level oracles; the structure checker of that world is compiled out
            log.write("== %s does not compile with the structure checker:\n%s\n" % (j[0], r.stdout[-2000:]))
            r2 = sh(j[1] + ["-DQSIM_STRUCT=0"])
            if r2.returncode == 0:
                degraded.append(j[0])
                return (j[0], r2)
        return (j[0], r)
    with ThreadPoolExecutor(NCPU) as ex:
        res = list(ex.map(compile_one, jobs))
    objs, mask, notes = [], 0, []
    world_of = {s: (n, bit) for (n, bit, s) in present}
    for s in degraded:
        notes.append("structure_oracle unavailable for world %s: private fields it reads do not exist in this tree; API-level oracles only" % world_of[s][0])
    for s, r in res:
        if r.returncode != 0:
            if s in world_of:
                # degrade: a refactoring of /repo that renames a private field must not turn checks red (DESIGN 2.9)
                notes.append("world %s unavailable: adapter does not compile against this tree" % world_of[s][0])
                log.write("== %s failed to compile:\n%s\n" % (s, r.stdout))
                continue
            sys.stderr.write(r.stdout)
            print("HARNESS-BUILD-ERROR in %s (variant %s)" % (s, variant))
            sys.exit(2)
        if s in world_of:
            mask |= world_of[s][1]
        objs.append(s.replace(".cpp", ".o"))
    r = sh(cxx + ["-DQSIM_WORLDS=%d" % mask, "-c", os.path.join(QSIM, "worlds.cpp"), "-o", os.path.join(d, "worlds.o")])
    if r.returncode != 0:
        sys.stderr.write(r.stdout)
        print("HARNESS-BUILD-ERROR in worlds.cpp")
        sys.exit(2)
    objs.append("worlds.o")
    json.dump({"objs": objs, "mask": mask, "notes": notes}, open(os.path.join(d, "STAMP.json"), "w"))
    try:
        os.rename(d, final_d)
    except OSError:
        shutil.rmtree(d, ignore_errors=True)       # somebody else published the same cache meanwhile
    # keep the cache small: drop all but the four most recent caches of this variant (never one that may be in use)
    def age(p):
        try:
            return time.time() - os.path.getmtime(p)
        except OSError:
            return 0.0       # removed by a concurrent check meanwhile
    caches = sorted([c for c in glob.glob(os.path.join(BUILD, "harness", variant + "-*")) if ".tmp" not in c], key=age)
    for old in caches[4:]:
        if age(old) > 3600:
            shutil.rmtree(old, ignore_errors=True)
    return [os.path.join(final_d, o) for o in objs], mask, notes


def build_variant(variant, rundir, log):
    """Compile the SUT from /repo's working tree (always), link with cached harness objects. Returns path of qsim binary."""
    v = VARIANTS[variant]
    out = os.path.join(rundir, variant)
    os.makedirs(os.path.join(out, "sut"), exist_ok=True)
    cc = ["gcc"] + SHIPPED + NOBUILTIN + INCLUDES + v["sut"]
    srcs = repo_sources()
    jobs = []
    for s in srcs:
        o = os.path.join(out, "sut", os.path.relpath(s, REPO).replace("/", "_").replace(".c", ".o"))
        jobs.append((s, o, cc + ["-c", s, "-o", o]))
    with ThreadPoolExecutor(NCPU) as ex:
        res = list(ex.map(lambda j: (j, sh(j[2])), jobs))
    for (s, o, _), r in res:
        if r.returncode != 0:
            sys.stderr.write(r.stdout)
            print("SUT-BUILD-ERROR: %s does not compile" % s)
            sys.exit(2)
    hobjs, mask, notes = build_harness(variant, log)
    exe = os.path.join(out, "qsim")
    link = ["g++", "-o", exe] + hobjs + [j[1] for j in jobs] + ["-Wl,--wrap=" + w for w in WRAPS.split(",")] + ["-lpthread", "-lm"] + v["link"]
    r = sh(link)
    if r.returncode != 0:
        sys.stderr.write(r.stdout)
        print("LINK-ERROR (variant %s)" % variant)
        sys.exit(2)
    return exe, mask, notes


def new_rundir():
    os.makedirs(BUILD, exist_ok=True)
    d = tempfile.mkdtemp(prefix="run-%d-" % os.getpid(), dir=BUILD)
    _tmpdirs.append(d)
    return d


def cmd_build(args):
    os.makedirs(BUILD, exist_ok=True)
    rundir = new_rundir()
    log = open(os.path.join(rundir, "build.log"), "w")
    t0 = time.time()
    for variant in VARIANTS:
        exe, mask, notes = build_variant(variant, rundir, log)
        r = sh([exe, "worlds"])
        print("built %s: worlds=%s %s" % (variant, ",".join(r.stdout.split()), "; ".join(notes)))
    print("build ok in %.1fs" % (time.time() - t0))
    return 0



# ====================================================================== checks
PROPS = {
    # prop: (level, [(variant, share_of_budget)], technique, level_text)
    "C01": ("exploration", [("plain", 0.75), ("asan", 0.25)]),
    "C02": ("exploration", [("plain", 0.75), ("asan", 0.25)]),
    "C03": ("exploration", [("plain", 0.75), ("asan", 0.25)]),
    "C04": ("exploration", [("plain", 0.75), ("asan", 0.25)]),
    "C05": ("exploration", [("plain", 0.75), ("asan", 0.25)]),
    "C06": ("exploration", [("plain", 0.75), ("asan", 0.25)]),
    "C07": ("exploration", [("plain", 0.6), ("asan", 0.4)]),
    "C08": ("exploration", [("plain", 0.75), ("asan", 0.25)]),
    "C09": ("exploration", [("plain", 0.75), ("asan", 0.25)]),
    "C10": ("exploration", [("plain", 0.75), ("asan", 0.25)]),
    "C11": ("exploration", [("asan", 1.0)]),
    "C12": ("exploration", [("asan", 0.6), ("plain", 0.4)]),
    "C13": ("exploration", [("tsan", 0.5), ("asan", 0.5)]),
    "C14": ("fault_enumeration", [("plain", 1.0)]),
    "C15": ("fault_enumeration", [("asan", 0.7), ("plain", 0.3)]),
}
TIER_BUDGET = {"quick": 24.0, "thorough": 300.0}       # seconds of search per check (all variants together)
CHUNK = {"plain": 400, "asan": 150, "tsan": 150}
WORKERS = {"plain": NCPU, "asan": max(2, NCPU // 2), "tsan": max(2, NCPU // 2)}
VARIANT_BASE = {"plain": 0, "asan": 10_000_000, "tsan": 20_000_000}
MAX_SHRINK = 6            # distinct failing signatures minimised per check
FINDINGS_FILE = os.path.join(ROOT, "known_findings.json")


def load_findings():
    if not os.path.exists(FINDINGS_FILE):
        return []
    return json.load(open(FINDINGS_FILE)).get("findings", [])


class Pool:
    """Run qsim worker processes over chunks of run indexes until the deadline."""

    def __init__(self, exe, prop, tier, seed, variant, scratch, deadline, nworkers, log):
        self.exe, self.prop, self.tier, self.seed, self.variant = exe, prop, tier, seed, variant
        self.scratch, self.deadline, self.nworkers, self.log = scratch, deadline, nworkers, log
        self.next_index = VARIANT_BASE[variant]
        self.stats = []          # parsed STATS objects
        self.fails = []          # dicts: index, file, cls, oracle, sig, detail
        self.died = []           # dicts: index, casek, casem, rc
        self.nondet = []

    def _chunk(self):
        a = self.next_index
        self.next_index += CHUNK[self.variant]
        return a, self.next_index

    def _worker(self, wid):
        wscratch = os.path.join(self.scratch, "%s-w%d" % (self.variant, wid))
        os.makedirs(wscratch, exist_ok=True)
        pending = None
        while time.time() < self.deadline:
            a, b = pending if pending else self._chunk()
            pending = None
            remaining = max(1.0, self.deadline - time.time())
            cmd = [self.exe, "run", "--prop", self.prop, "--tier", self.tier, "--seed", str(self.seed), "--from", str(a), "--to", str(b),
                   "--scratch", wscratch, "--deadline", "%.1f" % remaining]
            errf = open(os.path.join(wscratch, "stderr.txt"), "ab")
            p = subprocess.Popen(cmd, stdout=subprocess.PIPE, stderr=errf, text=True, errors="replace")
            # backstop: a worker that neither finishes nor dies (it has its own watchdogs) is killed well after the deadline
            killer = threading.Timer(remaining + 240.0, p.kill)
            killer.daemon = True
            killer.start()
            last_start, last_case, done = None, (-1, 1), False
            for line in p.stdout:
                if line.startswith("START "):
                    last_start = int(line.split()[1]); last_case = (-1, 1)
                elif line.startswith("CASE "):
                    f = line.split(); last_case = (int(f[2]), int(f[3]))
                elif line.startswith("FAIL "):
                    m = re.match(r"FAIL (\d+) file=(\S+) class=(\S+) oracle=(\S+) sig=(\S*) detail=(.*)", line.rstrip("\n"))
                    if m:
                        self.fails.append(dict(index=int(m.group(1)), file=m.group(2), cls=m.group(3), oracle=m.group(4), sig=m.group(5), detail=m.group(6), variant=self.variant))
                elif line.startswith("NONDET "):
                    self.nondet.append(line.strip())
                elif line.startswith("STATS "):
                    try:
                        self.stats.append(json.loads(line[6:]))
                    except Exception as e:
                        self.log.write("bad STATS line: %s\n" % e)
                elif line.startswith("DONE"):
                    done = True
            rc = p.wait()
            killer.cancel()
            errf.close()
            if not done:
                # the worker died inside run last_start: that is a verdict about that run; carry on after it
                if last_start is None:
                    self.log.write("worker died before its first run rc=%s\n" % rc)
                    self.died.append(dict(index=a, casek=-1, casem=1, rc=rc, variant=self.variant, startup=True))
                    return
                self.died.append(dict(index=last_start, casek=last_case[0], casem=last_case[1], rc=rc, variant=self.variant))
                if last_start + 1 < b:
                    pending = (last_start + 1, b)

    def run(self):
        with ThreadPoolExecutor(self.nworkers) as ex:
            list(ex.map(self._worker, range(self.nworkers)))


def qsim_lines(cmd):
    try:
        r = sh(cmd, timeout=1500)
    except subprocess.TimeoutExpired:
        return 2, "SHRINK harness-error (timeout)"
    return r.returncode, r.stdout


def parse_kv(line):
    out = {}
    m = re.search(r" detail=(.*)$", line)
    if m:
        out["detail"] = m.group(1)
        line = line[:m.start()]
    for tok in line.split():
        if "=" in tok:
            k, v = tok.split("=", 1)
            out[k] = v
    return out


def base_class(c):
    return c.split("@")[0]


def cmd_check(argv):
    prop = argv[0]
    tier = os.environ.get("VERIF_TIER", "quick")
    if "--tier" in argv:
        tier = argv[argv.index("--tier") + 1]
    seed = int(os.environ.get("VERIF_SEED", "20260928"))
    budget = float(os.environ.get("VERIF_BUDGET", TIER_BUDGET[tier]))
    if prop not in PROPS:
        print("unknown or not-applicable property %s" % prop)
        return 2
    level, variants = PROPS[prop]
    t0 = time.time()
    os.makedirs(BUILD, exist_ok=True)
    replay_dir = os.environ.get("VERIF_REPLAY_DIR", os.path.join(ROOT, "replays"))
    os.makedirs(replay_dir, exist_ok=True)
    os.makedirs(os.path.join(ROOT, "evidence"), exist_ok=True)
    rundir = new_rundir()
    log = open(os.path.join(rundir, "check.log"), "w")
    exes, notes = {}, []
    for v, _ in variants:
        exes[v], mask, n = build_variant(v, rundir, log)
        notes += n
    build_s = time.time() - t0
    findings = [f for f in load_findings() if f["property"] == prop]
    known = [f for f in findings if f["status"] == "known"]
    fixed = [f for f in findings if f["status"] == "fixed"]
    violations = []        # (what, replay_path)
    known_seen = {}
    harness_errors = []
    scratch = os.path.join(rundir, "scratch")
    os.makedirs(scratch, exist_ok=True)

    def variant_exe(v):
        return exes.get(v) or exes[variants[0][0]]

    # ---- committed replays first: known findings are announced deterministically, fixed ones must hold
    regress = 0
    for f in findings:
        path = os.path.join(ROOT, f["replay"])
        v = f.get("variant", variants[0][0])
        if v not in exes:
            continue
        def replay_committed():
            rc, out = qsim_lines([exes[v], "replay", path, "--scratch", scratch])
            line = [l for l in out.splitlines() if l.startswith("REPLAY")]
            kv = parse_kv(line[0]) if line else {}
            return rc, kv, bool(line) and line[0].startswith("REPLAY violated")
        rc, kv, failed = replay_committed()
        if failed:
            # a verdict needs two executions that agree
            rc2, kv2, failed2 = replay_committed()
            if not failed2 or base_class(kv2.get("class", "")) + "|" + kv2.get("oracle", "") != base_class(kv.get("class", "")) + "|" + kv.get("oracle", ""):
                harness_errors.append("committed replay %s failed once (%s) but not twice" % (f["replay"], kv.get("class", "?")))
                failed = False
        elif rc == 2:
            harness_errors.append("committed replay %s could not be executed" % f["replay"])
        regress += 1
        if f["status"] == "known":
            if failed and base_class(kv.get("class", "")) + "|" + kv.get("oracle", "") == f["class_oracle"]:
                print("KNOWN-FINDING: property=%s %s (replay %s)" % (prop, f["what"], f["replay"]))
                known_seen[f["signature"]] = known_seen.get(f["signature"], 0) + 1
            elif failed:
                violations.append(("committed replay of a known finding now fails differently: %s" % kv.get("detail", ""), path, kv))
            else:
                log.write("known finding %s no longer reproduces\n" % f["replay"])
        else:
            if failed:
                violations.append(("regression of fixed finding (%s): %s" % (f["what"], kv.get("detail", "")), path, kv))
    # ---- seeded search
    pools = []
    search_t0 = time.time()
    for v, share in variants:
        deadline = time.time() + budget * share
        pool = Pool(exes[v], prop, tier, seed, v, scratch, deadline, WORKERS[v], log)
        pool.run()
        pools.append(pool)
    search_s = time.time() - search_t0
    # ---- thorough tier, C11: uninitialised reads are invisible to ASan; a valgrind pass over the plain binary
    valgrind_info = None
    if tier == "thorough" and prop == "C11" and shutil.which("valgrind"):
        vexe, _, _ = build_variant("plain", rundir, log)
        exes["plain"] = vexe
        nproc, per = NCPU, 150
        base = 30_000_000

        def vg(i):
            sc = os.path.join(scratch, "vg-%d" % i)
            os.makedirs(sc, exist_ok=True)
            a, b = base + i * per, base + (i + 1) * per
            r = subprocess.run(["valgrind", "-q", "--error-exitcode=77", vexe, "run", "--prop", prop, "--tier", tier, "--seed", str(seed), "--from", str(a), "--to", str(b),
                                "--scratch", sc, "--recheck", "0", "--deadline", "240"], stdout=subprocess.PIPE, stderr=subprocess.PIPE, text=True, errors="replace",
                               env=dict(os.environ, QSIM_WATCHDOG_SCALE="40"))      # CPU-time budgets are for native speed
            starts = [int(l.split()[1]) for l in r.stdout.splitlines() if l.startswith("START ")]
            done = [l for l in r.stdout.splitlines() if l.startswith("DONE")]
            return dict(i=i, rc=r.returncode, last=starts[-1] if starts else a, runs=len(starts), done=bool(done), err=r.stderr[-1500:])
        with ThreadPoolExecutor(nproc) as ex:
            res = list(ex.map(vg, range(nproc)))
        valgrind_info = dict(runs=sum(r["runs"] for r in res), errors=sum(1 for r in res if r["rc"] == 77))
        for r in res:
            if r["rc"] == 77:
                # a verdict needs two executions that agree (runs are deterministic: a real error comes back in the same run)
                r2 = vg(r["i"])
                if r2["rc"] != 77 or r2["last"] != r["last"]:
                    notes.append("valgrind reported an error in chunk %d that did not come back when the chunk was executed again" % r["i"])
                    valgrind_info["errors"] -= 1
                    continue
                path = os.path.join(replay_dir, "%s-%x-valgrind-%d.json" % (prop, seed, r["last"]))
                rc, out = qsim_lines([vexe, "gen", "--prop", prop, "--tier", tier, "--seed", str(seed), "--index", str(r["last"])])
                open(path, "w").write(out)
                log.write(r["err"])
                violations.append(("valgrind (memcheck) reported an error in or before this run of the plain binary; replay it under `valgrind -q`: " + r["err"].strip().splitlines()[0][:200] if r["err"].strip() else "valgrind error", path,
                                   {"class": "valgrind", "oracle": "mem", "sig": "valgrind"}))
    # ---- triage failures: minimise, gate, match known findings
    cand = []
    for pool in pools:
        for f in pool.fails:
            cand.append(f)
        for d in pool.died:
            if d.get("startup"):
                harness_errors.append("worker failed to start (rc %s)" % d["rc"])
                continue
            path = os.path.join(scratch, "died-%s-%d.json" % (d["variant"], d["index"]))
            cmd = [exes[d["variant"]], "gen", "--prop", prop, "--tier", tier, "--seed", str(seed), "--index", str(d["index"])]
            if d["casek"] >= 0:
                cmd += ["--casek", str(d["casek"]), "--casem", str(d["casem"])]
            rc, out = qsim_lines(cmd)
            open(path, "w").write(out)
            cand.append(dict(index=d["index"], file=path, cls="died", oracle="crash", sig="died:%s" % d["rc"], detail="worker died (rc %s)" % d["rc"], variant=d["variant"], rc=d["rc"]))
        for n in pool.nondet:
            harness_errors.append("in-run determinism re-check failed: " + n)
    # group by coarse signature, keep the smallest-index representative of each
    groups = {}
    for f in sorted(cand, key=lambda f: f["index"]):
        key = (f["variant"], f["sig"] if f["cls"] != "died" else "died")
        groups.setdefault(key, []).append(f)
    shrunk = 0
    unknown_seen = set()
    fail_counts = {}
    for key, fl in sorted(groups.items(), key=lambda kv: kv[1][0]["index"]):
        fail_counts["%s %s" % key] = len(fl)
        reps = fl[:3] if key[1] == "died" else fl[:1]
        for f in reps:
            if shrunk >= MAX_SHRINK:
                break
            shrunk += 1
            out_path = os.path.join(replay_dir, "%s-%x-%d.json" % (prop, seed, f["index"]))
            rc, out = qsim_lines([exes[f["variant"]], "shrink", f["file"], "--out", out_path, "--scratch", scratch, "--max", "300" if tier == "quick" else "600"])
            line = [l for l in out.splitlines() if l.startswith("SHR")]
            if f.get("rc") in (79, -9) and line and line[0].startswith("SHRINK not-failing"):
                # the worker was starved (wall-clock backstop) or killed from outside (our own kill timer, the OOM killer) and
                # the run is fine when executed alone: the environment, not the library and not the harness
                notes.append("run %d: worker ended with rc %s under load; the run completes when executed in isolation" % (f["index"], f["rc"]))
                continue
            if rc != 0 or not line or not line[0].startswith("SHRUNK"):
                harness_errors.append("could not reproduce run %d in isolation: %s" % (f["index"], (line[0] if line else out.strip()[:200])))
                continue
            kv = parse_kv(line[0])
            # fresh-process replay gate
            rc2, out2 = qsim_lines([exes[f["variant"]], "replay", out_path, "--scratch", scratch])
            if "REPRODUCED" not in out2 or "NOT-REPRODUCED" in out2:
                harness_errors.append("minimised plan of run %d does not replay: %s" % (f["index"], out2.strip()[:200]))
                continue
            sig = kv.get("sig", "")
            co = base_class(kv.get("class", "")) + "|" + kv.get("oracle", "")
            matched = [k for k in known if k["signature"] == sig or (k.get("match_class_oracle") and k["class_oracle"] == co and sig.startswith(k["signature"].split("|")[0] + "|"))]
            if matched:
                known_seen[matched[0]["signature"]] = known_seen.get(matched[0]["signature"], 0) + len(fl)
                os.unlink(out_path)
                continue
            if sig in unknown_seen:
                os.unlink(out_path)
                continue
            unknown_seen.add(sig)
            violations.append((kv.get("detail", ""), out_path, kv))
    # ---- evidence
    ev = build_evidence(prop, tier, seed, level, pools, variants, notes, known_seen, violations, fail_counts, harness_errors, build_s, search_s, time.time() - t0, regress)
    if valgrind_info:
        ev["coverage"]["valgrind_pass"] = valgrind_info
    if not os.environ.get("VERIF_NOEVIDENCE"):      # (developer runs against scratch copies must not overwrite the evidence of /repo)
        json.dump(ev, open(os.path.join(ROOT, "evidence", "%s.json" % prop), "w"), indent=1)
    for what, path, kv in violations:
        print("VIOLATION property=%s replay=%s" % (prop, path))
        print("  class=%s oracle=%s signature=%s" % (kv.get("class", "?"), kv.get("oracle", "?"), kv.get("sig", "?")))
        print("  %s" % what[:400])
    tot_runs = sum(s["runs"] for p in pools for s in p.stats)
    tot_cases = sum(s["cases"] for p in pools for s in p.stats)
    print("%s %s: %d runs (%d cases) in %.1fs search (+%.1fs build), %d distinct non-trivial, violations=%d known=%d%s" % (
        prop, tier, tot_runs, tot_cases, search_s, build_s, ev["coverage"]["distinct_nontrivial"], len(violations), sum(known_seen.values()),
        (" harness-errors=%d" % len(harness_errors)) if harness_errors else ""))
    if harness_errors:
        for h in harness_errors[:5]:
            print("HARNESS-ERROR: %s" % h)
        if not violations:
            return 2
    return 1 if violations else 0


COMPONENTS = {
    "real": ["qlibc container/utility/internal C sources compiled from /repo's working tree with the shipped flags (-std=gnu99 -O2 -g -DNDEBUG) plus the variant's sanitizer",
             "glibc recursive pthread mutex (executed inside the wrapped trylock/unlock)", "glibc/ASan allocator underneath the wrapped malloc family",
             "real files in a private scratch directory for qlisttbl save/load"],
    "stubbed": ["thread scheduling (baton scheduler decides who runs at every trylock/unlock/usleep/op boundary)", "usleep (advances simulated microseconds, never sleeps)",
                "time() (simulated clock)", "allocation failure (injected by the wrapped malloc/calloc/realloc/strdup)"],
}
RULES = {
    "default": "cases = seeded operation histories (one PRNG stream from VERIF_SEED x property x tier x run index decides configuration, operations, arguments, faults and schedule). "
               "distinct_nontrivial = number of distinct hashes of (world, full result trace, schedule) among runs with >= 3 successful mutations"
               " and (in fault/thread modes) at least one fault fired or context switch taken",
}


def build_evidence(prop, tier, seed, level, pools, variants, notes, known_seen, violations, fail_counts, harness_errors, build_s, search_s, wall_s, regress):
    counters, worlds, nontrivial, scheds, samples = {}, {}, set(), set(), []
    runs = cases = truncated = rechecked = 0
    per_variant = {}
    for p in pools:
        vr = 0
        for s in p.stats:
            runs += s["runs"]; cases += s["cases"]; truncated += s["truncated"]; rechecked += s["rechecked"]; vr += s["runs"]
            for k, v in s["counters"].items():
                counters[k] = counters.get(k, 0) + v
            for k, v in s["worlds"].items():
                worlds[k] = worlds.get(k, 0) + v
            nontrivial.update(s["nontrivial"])
            scheds.update(s["schedules"])
            if len(samples) < 3:
                samples += s["samples"][:1]
        per_variant[p.variant] = dict(runs=vr, died=len(p.died), failing_runs=len(p.fails))
    faults = {}
    for k, v in counters.items():
        m = re.match(r"fault\.([a-z]+)\.(planned|fired)$", k)
        if m:
            faults.setdefault(m.group(1), {})[m.group(2)] = v
    probes = {k[6:]: v for k, v in counters.items() if k.startswith("probe.")}
    cfgs = {k[4:]: v for k, v in counters.items() if k.startswith("cfg.")}
    collateral = {k: v for k, v in counters.items() if k.startswith("collateral")}
    cells = {}
    for k, v in counters.items():
        if k.startswith("cell."):
            _, wname, opname, outcome = k.split(".", 3)
            cells.setdefault(wname + "." + opname, {})[outcome] = v
    other = {k: v for k, v in counters.items() if not re.match(r"(fault|probe|cfg|collateral|cell)", k)}
    if not samples:
        samples = ["(no run completed)"]
    cov = {
        "evaluations": max(cases, 0),
        "distinct_nontrivial": len(nontrivial),
        "rule": RULES["default"],
        "samples": samples,
        "runs": runs,
        "committed_replays_executed": regress,
        "seeds_per_hour": int(runs / max(search_s, 0.001) * 3600),
        "sim_steps": {"operations": other.get("ops", 0), "scheduler_decisions": other.get("sched.decisions", 0), "context_switches": other.get("sched.switches", 0),
                      "allocations_inside_sut": other.get("allocs", 0)},
        "sim_time_us": other.get("sim_us", 0),
        "faults": faults,
        "fault_enumeration": {"targets": other.get("enum.targets", 0), "allocation_points": other.get("enum.target_allocs", 0),
                              "reported_failure": counters.get("fault.reported_failure", 0), "survived": counters.get("fault.survived", 0),
                              "ctor_reported_failure": counters.get("fault.ctor_reported_failure", 0), "ctor_survived": counters.get("fault.ctor_survived", 0)},
        "probes": probes,
        "function_outcome_table": cells,
        "configurations": cfgs,
        "distinct_schedules": len(scheds),
        "worlds": worlds,
        "variants": per_variant,
        "truncated_runs": truncated,
        "determinism_rechecks": rechecked,
        "other_counters": other,
        "collateral_other_properties": collateral,
        "known_findings_seen": known_seen,
        "failing_signatures": fail_counts,
        "harness_errors": harness_errors,
        "components": COMPONENTS,
        "notes": notes,
        "exhaustive": False,
    }
    return {
        "property_id": prop, "tier": tier, "seed": seed, "level": level, "coverage": cov,
        "assumptions": ["sampling, not proof: a clean batch is evidence only", "the sequential reference models in qsim/w_*.cpp state the ideal behaviour",
                        "glibc mutex semantics and the sanitizer runtimes are trusted", "scheduling granularity is lock/unlock/usleep/operation boundaries; instruction-level races are left to the TSan-in-simulation oracle"],
        "wall_s": round(wall_s, 2), "violations": len(violations),
    }


def cmd_replay(argv):
    path = argv[0]
    plan = json.load(open(path))
    v = plan.get("variant") or "plain"
    rundir = new_rundir()
    log = open(os.path.join(rundir, "replay.log"), "w")
    exe, _, _ = build_variant(v, rundir, log)
    cmd = [exe, "replay", path, "--scratch", rundir] + (["--verbose"] if "--verbose" in argv else [])
    r = subprocess.run(cmd)
    return r.returncode


def cmd_selfcheck(args):
    """Determinism of the simulator: the same seeds executed twice, in different processes, split over different
    worker counts, must give identical trace and schedule hashes."""
    n = int(args[0]) if args else 2000
    rundir = new_rundir()
    log = open(os.path.join(rundir, "selfcheck.log"), "w")
    bad = 0
    total = 0
    report = {}
    for variant, props in (("plain", ["C01", "C03", "C04", "C05", "C06", "C07", "C08", "C09", "C10", "C14", "C15"]), ("asan", ["C11", "C12", "C13", "C15"]), ("tsan", ["C13"])):
        exe, _, _ = build_variant(variant, rundir, log)
        for prop in props:
            base = VARIANT_BASE[variant]
            nn = n if variant == "plain" else max(200, n // 4)

            def run_split(workers, tag):
                step = (nn + workers - 1) // workers
                jobs = [(base + i * step, min(base + (i + 1) * step, base + nn)) for i in range(workers)]
                def one(j):
                    sc = os.path.join(rundir, "sc-%s-%s-%s-%d" % (variant, prop, tag, j[0]))
                    os.makedirs(sc, exist_ok=True)
                    r = subprocess.run([exe, "hashes", "--prop", prop, "--from", str(j[0]), "--to", str(j[1]), "--scratch", sc], stdout=subprocess.PIPE, stderr=subprocess.DEVNULL, text=True)
                    return [l for l in r.stdout.splitlines() if l.startswith("H ")]
                with ThreadPoolExecutor(workers) as ex:
                    out = []
                    for part in ex.map(one, jobs):
                        out += part
                return {l.split()[1]: l for l in out}
            a = run_split(1, "a")
            b = run_split(min(16, NCPU), "b")
            diff = [k for k in a if a[k] != b.get(k)]
            missing = [k for k in a if k not in b] + [k for k in b if k not in a]
            total += len(a)
            report["%s/%s" % (variant, prop)] = dict(seeds=len(a), differing=len(diff), missing=len(missing))
            if diff or missing:
                bad += len(diff) + len(missing)
                print("NONDETERMINISTIC %s %s: %d differing, %d missing; e.g. %s | %s" % (variant, prop, len(diff), len(missing), a.get((diff or missing)[0]), b.get((diff or missing)[0])))
            else:
                print("deterministic %s %s: %d seeds x 2 executions (1 vs %d processes)" % (variant, prop, len(a), min(16, NCPU)))
    os.makedirs(os.path.join(ROOT, "evidence"), exist_ok=True)
    json.dump(dict(total_seeds=total, nondeterministic=bad, detail=report), open(os.path.join(ROOT, "evidence", "selfcheck.json"), "w"), indent=1)
    return 2 if bad else 0


def cmd_dev(args):
    """developer helper: build one variant into build/dev (kept)"""
    d = os.path.join(BUILD, "dev")
    os.makedirs(d, exist_ok=True)
    log = open(os.path.join(d, "build.log"), "w")
    for variant in (args or ["plain"]):
        exe, mask, notes = build_variant(variant, d, log)
        print(exe, notes)
    return 0


def main(argv):
    if not argv:
        print(__doc__)
        return 2
    if argv[0] == "build":
        return cmd_build(argv[1:])
    if argv[0] == "dev":
        return cmd_dev(argv[1:])
    if argv[0] == "selfcheck":
        return cmd_selfcheck(argv[1:])
    if argv[0] == "check":
        return cmd_check(argv[1:])
    if argv[0] == "replay":
        return cmd_replay(argv[1:])
    print(__doc__)
    return 2


if __name__ == "__main__":
    try:
        rc = main(sys.argv[1:])
    except SystemExit:
        raise
    except BaseException:
        # a crash of the orchestrator is never a verdict about the library
        import traceback
        traceback.print_exc()
        print("HARNESS-ERROR: the orchestrator failed (see the traceback above)")
        rc = 2
    sys.exit(rc)
